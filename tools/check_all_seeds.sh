#!/bin/sh
# Sensitivity regression: every seeded change under /verif/seeded must make the quick tier of its property's check fail.
# Uses scratch worktrees (tools/try_patch_wt.sh); /repo is not touched. Output: one line per seed.
cd /verif || exit 2
missed=0
for d in seeded/*/; do
  id=$(basename "$d"); prop=$(python3 -c "import json;print(json.load(open('$d/meta.json'))['breaks_property'])")
  TAILN=3 tools/try_patch_wt.sh "/verif/$d/patch.diff" "$prop" > /tmp/seedreg.$id.log 2>&1; rc=$?
  if [ $rc -eq 1 ]; then echo "$id $prop detected"; else echo "$id $prop NOT-DETECTED rc=$rc"; missed=$((missed+1)); fi
done
echo "missed=$missed"
