#!/bin/sh
# usage: tools/try_patch.sh <patch.diff> <ID> [tier]  — applies the patch to /repo's working tree,
# runs the check, and restores the tree. Never commits.
P="$1"; ID="$2"; TIER="${3:-quick}"
cd /verif || exit 2
if [ -n "$(git -C /repo status --porcelain --untracked-files=no)" ]; then echo "/repo working tree not clean"; exit 2; fi
git -C /repo apply "$P" || { echo "patch does not apply"; exit 2; }
./check "$ID" --tier "$TIER" > /tmp/try_patch.$$.out 2>&1; rc=$?
git -C /repo checkout -- . 
tail -${TAILN:-15} /tmp/try_patch.$$.out; rm -f /tmp/try_patch.$$.out
echo "try_patch: $P on $ID -> rc=$rc"
exit $rc
