#!/usr/bin/env python3
"""usage: tools/gen_inventory.py — prints the DESIGN 9.3 inventory table from checks_config.py; with --write replaces the table in DESIGN.md"""
import sys, re
sys.path.insert(0, '/verif')
import checks_config as c
rows = ["| Property | Step (= own process) | Tests | quick cases | thorough cases x shards |", "|---|---|---|---|---|"]
for pid in sorted(c.CHECKS):
    for st in c.CHECKS[pid]['steps']:
        if st.get('fuzz'):
            rows.append("| %s | %s | `%s (native fuzz, thorough only)` | - | %s |" % (pid, st['name'], st['fuzz'], '%s s' % st.get('fuzztime_thorough', '')))
            continue
        run = st.get('run', '').strip('^$').strip('()')
        rows.append("| %s | %s | `%s` | %s | %s x%s |" % (pid, st['name'], run, st.get('quick', '-'), st.get('thorough', '-'), st.get('shards_thorough', 1)))
table = "\n".join(rows)
if '--write' in sys.argv:
    s = open('/verif/DESIGN.md').read()
    i = s.index(rows[0]); j = s.index("\n\n", i)
    open('/verif/DESIGN.md', 'w').write(s[:i] + table + s[j:])
else:
    print(table)
