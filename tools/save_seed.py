#!/usr/bin/env python3
"""usage: save_seed.py <seed id> <property> <demo pkg dir> <detected: yes|no|partial> <check note> — copies $SEED_SRC/<id> (default /tmp/seeded/<id>) into /verif/seeded/<id> and writes meta.json"""
import sys, os, shutil, json, re
sid, prop, pkg, detected, note = sys.argv[1:6]
src = os.environ.get('SEED_SRC', '/tmp/seeded') + '/' + sid
dst = '/verif/seeded/' + sid
os.makedirs(dst, exist_ok=True)
for f in os.listdir(src):
    shutil.copy(os.path.join(src, f), os.path.join(dst, f))
notes = open(os.path.join(src, 'notes.md')).read() if os.path.exists(os.path.join(src, 'notes.md')) else ''
meta = dict(
    id=sid, breaks_property=prop,
    origin="written by an independent sub-agent that saw only the property text and a scratch worktree of /repo (nothing from /verif)",
    demo=dict(file="demo_test.go", place_in=pkg, run="go test -vet=off -count=1 -run 'TestDemo%s' ./%s/" % (sid, pkg)),
    needs_to_manifest=(re.search(r'(?is)(needs?|manifest)[^\n]*\n?(.{0,600})', notes).group(0)[:700] if re.search(r'(?i)needs?|manifest', notes) else ''),
    confirmed=dict(
        how="tools/verify_seed.sh in a scratch worktree of /repo HEAD (removed afterwards): patch applies; `go build ./...` and `-tags verif` ok; existing tests of the touched package pass with the patch; demo fails with the patch and passes without it",
        check_run="tools/try_patch.sh seeded/%s/patch.diff %s (git -C /repo apply; ./check %s --tier quick; git -C /repo checkout -- .)" % (sid, prop, prop),
    ),
    detected_by_check=detected, detection_note=note,
)
json.dump(meta, open(os.path.join(dst, 'meta.json'), 'w'), indent=1)
print("saved", dst)
