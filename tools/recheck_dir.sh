#!/bin/sh
# usage: tools/recheck_dir.sh <dir with <seed id>/patch.diff> <out file> [par] — runs the quick check of each seed's property against the
# seed in scratch worktrees; seeds of one property never run at the same time (they share the property's work directories)
DIR="$1"; OUT="$2"; PAR="${3:-4}"
mkdir -p /tmp/wt
: > "$OUT"
ls "$DIR" | sed 's/.$//' | sort -u | xargs -P "$PAR" -I{} sh -c 'p={}; for d in '"$DIR"'/$p?; do id=$(basename $d); r=$(/verif/tools/try_patch_wt.sh $d/patch.diff $p 2>&1 | grep -a "try_patch:" | sed "s/.*-> //"); echo "$id $r" >> '"$OUT"'; done'
