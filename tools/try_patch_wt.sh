#!/bin/sh
# usage: tools/try_patch_wt.sh <patch.diff> <ID> [tier] — like try_patch.sh but leaves /repo alone: the patch is applied to a
# scratch worktree of /repo HEAD and the check is built against it (VERIF_REPO). Evidence/replays are written as usual.
P="$1"; ID="$2"; TIER="${3:-quick}"
WT=/tmp/wt/try.$$
git -C /repo worktree add -q --detach "$WT" HEAD || exit 2
trap 'git -C /repo worktree remove --force "$WT"' EXIT
git -C "$WT" apply "$P" || { echo "patch does not apply"; exit 2; }
cd /verif && VERIF_REPO="$WT" ./check "$ID" --tier "$TIER" > /tmp/try_patch_wt.$$.out 2>&1; rc=$?
tail -${TAILN:-15} /tmp/try_patch_wt.$$.out; rm -f /tmp/try_patch_wt.$$.out
echo "try_patch: $P on $ID -> rc=$rc"
exit $rc
