#!/bin/sh
# usage: tools/proc_seed.sh <seed id> <property> <demo package dir> [srcdir] — confirm a delivered seed (verify_seed.sh) and run the
# property's quick check against it in a scratch worktree (try_patch_wt.sh); log in /tmp/proc_seed/<id>.log, one summary line on stdout
SID="$1"; PROP="$2"; PKG="$3"; SRC="${4:-/tmp/seeded4}"
mkdir -p /tmp/proc_seed
L=/tmp/proc_seed/$SID.log
{ /verif/tools/verify_seed.sh "$SRC/$SID" "$PKG" "TestDemo$SID"; echo "---- check"; /verif/tools/try_patch_wt.sh "$SRC/$SID/patch.diff" "$PROP"; } > "$L" 2>&1
V=$(grep -c -E "with patch: PASS$|demo with patch: FAIL \(good\)|demo without patch: PASS \(good\)" "$L")
echo "$SID verify_ok=$V/3 $(grep -a 'try_patch:' "$L" | sed 's/.*-> //')"
