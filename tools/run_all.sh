#!/bin/sh
# usage: tools/run_all.sh <tier> <par> <seed>...   — runs every claimed check at the given seeds, <par> checks at a time,
# prints one line per (check, seed) with its exit code; logs under /tmp/run_all/.
TIER="$1"; PAR="$2"; shift 2
mkdir -p /tmp/run_all
cd /verif || exit 2
IDS=$(python3 -c "import json;print(' '.join(c['property_id'] for c in json.load(open('MANIFEST.json'))['checks']))")
for S in "$@"; do for ID in $IDS; do echo "$ID $S"; done; done | xargs -P "$PAR" -L 1 sh -c 'ID=$0; S=$1; VERIF_SEED=$S ./check $ID --tier '"$TIER"' > /tmp/run_all/$ID-$S.log 2>&1; echo "$ID seed=$S rc=$? $(grep -a -c KNOWN-FINDING /tmp/run_all/$ID-$S.log) $(tail -1 /tmp/run_all/$ID-$S.log | cut -c1-110)"'
