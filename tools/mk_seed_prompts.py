#!/usr/bin/env python3
"""usage: mk_seed_prompts.py <wave tag, e.g. w5> <letters, e.g. ijk> — writes /tmp/prompts_<tag>/<ID>.txt, one prompt per property for a fresh
sub-agent that gets ONLY the property text, a scratch worktree path and the one-line titles of changes already used (so that it looks elsewhere);
nothing about the checks. Deliveries go to /tmp/seeded_<tag>/<ID><letter>/."""
import json, glob, os, re, sys
tag, letters = sys.argv[1], sys.argv[2]
out = '/tmp/prompts_%s' % tag
os.makedirs(out, exist_ok=True)
props = {}
for l in open('/verif/properties.jsonl'):
    p = json.loads(l); props[p['id']] = p
for pid, p in props.items():
    done = []
    for d in sorted(glob.glob('/verif/seeded/%s?' % pid)):
        first = [x for x in open(d + '/notes.md').read().splitlines() if x.strip()][0]
        done.append(re.sub(r'^#\s*\S+\s*[—-]\s*', '', first))
    ks = ', '.join(letters)
    txt = f'''You are helping to evaluate a verification effort for the Go library ThreeDotsLabs/watermill. Your job is to write {len(letters)} separate, realistic code changes ("mutations") to the library, each of which BREAKS the semantic property below while the library still compiles and its existing test suite still passes. They will later be used to test whether independently built property-based checks notice the breakage, so subtle, plausible changes (the kind a well-meaning refactoring, optimisation or "fix" might introduce) are far more valuable than blatant ones.

## The property ({pid})

{json.dumps(p, indent=1)}

## Where to work

* Your scratch git worktree of the library: /tmp/wt/{pid}{tag} (detached HEAD of the pinned commit). Work ONLY there. Never touch /repo, never read or write anything under /verif.
* No network. Every shell call needs: export GOFLAGS=-mod=mod GOPROXY=off GOSUMDB=off GOTOOLCHAIN=local
* If `go` with -mod=mod rewrites go.sum in the worktree, restore it (git checkout -- go.sum) before producing a diff.
* Do NOT use `git stash`: the stash is shared by all worktrees of this repository and other workers use it concurrently. Save a change with `git diff > <file>`, reset with `git checkout -- . && git clean -fdq`, re-apply with `git apply <file>`.
* The machine is shared and busy; timing-sensitive existing tests can be slow or flaky. If an existing test fails, re-run it on the UNCHANGED worktree too before blaming your change.

## Requirements for each change

1. It changes only non-test library source files (no *_test.go, nothing under internal/verifhook, no go.mod changes). Keep it small (typically 3-30 lines) and plausible.
2. `go build ./...` and `go build -tags verif ./...` succeed in the worktree root.
3. The existing tests of every package you touched (and of packages that obviously depend on the touched code, e.g. ./message/... for message/router.go, ./pubsub/... for gochannel, ./components/... for components) still pass: run them with `go test -vet=off -count=2 <pkgs>` and record the result. A change that makes an existing test fail (deterministically or flakily) is useless - drop it and find another.
4. The property above is really broken: write a small demonstration Go test (demo_test.go, placed in the package directory you name) that FAILS with your change applied and PASSES on the unchanged tree. Run it both ways and record the outcomes. It must not need any build tag. Remove it from the worktree before you take the diff.
5. The breakage should need something specific to manifest - a particular input shape, configuration, interleaving, crash point or sequence of calls - and not show up in trivial usage. Say precisely what is needed.
6. The changes must be independent of each other (each a diff against the pristine HEAD) and should attack DIFFERENT clauses of the property and different mechanisms. Read the whole statement and the quantifier: every clause and every dimension of the quantifier is fair game, and the less obvious ones are the most useful.
7. These ideas were already used in earlier rounds - do NOT repeat them or close variants; look for other clauses of the property, other code paths, other configurations, other packages the property touches:
''' + ''.join(f'   - {x}\n' for x in done) + f'''
## Deliverables

For k in {ks} create the directory /tmp/seeded_{tag}/{pid}<k>/ (e.g. /tmp/seeded_{tag}/{pid}{letters[0]}/) containing:
* patch.diff - output of `git diff` in the worktree root with only that change applied (must apply with `git apply` at the repository root of a pristine checkout);
* demo_test.go - the demonstration test, with a first-line comment saying in which package directory to place it and the exact command `go test -vet=off -count=1 -run 'TestDemo{pid}<k>' ./<package dir>/` (test function names must start with TestDemo{pid}<k>);
* notes.md - first line `# {pid}<k> — <one-line title>`; then: the change (file, function, what and the plausible motivation), which clause of the property it breaks, what is needed to manifest, why existing tests do not notice, and the commands you ran with their outcomes (build, existing tests with/without, demo with/without).

When finished, leave the worktree clean (git checkout -- . && git clean -fdq) and reply with a short summary: for each change, the title, files touched, what is needed to manifest, and confirmation of the four outcomes (builds; existing tests pass; demo fails with; demo passes without). If you could not produce {len(letters)} valid changes, say so plainly and deliver the ones that are valid.
'''
    open(f'{out}/{pid}.txt', 'w').write(txt)
print(out, len(props))
