#!/usr/bin/env python3
"""prints the package directory named in the header comment of a seed's demo_test.go (the `go test ... ./<dir>/` command)"""
import re, sys
head = open(sys.argv[1]).read(1500)
m = re.search(r"go test[^\n]*?\s\./([A-Za-z0-9_/]+?)/?(\s|$|\))", head)
print(m.group(1) if m else "")
