#!/usr/bin/env python3
"""usage: save_wave.py <dir with delivered seeds> <json file: {seed id: detection note for seeds that were missed at first}> — copies every
delivered seed into /verif/seeded with a meta.json (tools/save_seed.py); seeds not named in the json get the note "detected ... as the checks were"."""
import subprocess, os, sys, json
src, missed = sys.argv[1], json.load(open(sys.argv[2]))
ids = sorted(os.listdir(src))
for sid in ids:
    prop = sid[:-1]
    pkg = subprocess.run(['/verif/tools/seed_pkg.py', '%s/%s/demo_test.go' % (src, sid)], capture_output=True, text=True).stdout.strip()
    assert pkg, sid
    note = missed.get(sid, "detected by the quick tier as the checks were")
    subprocess.run(['python3', '/verif/tools/save_seed.py', sid, prop, pkg, 'yes', note], env=dict(os.environ, SEED_SRC=src), check=True, stdout=subprocess.DEVNULL)
print(len(ids), "saved")
