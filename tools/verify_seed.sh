#!/bin/sh
# usage: tools/verify_seed.sh <seed dir with patch.diff + demo_test.go> <package dir relative to repo> <-run pattern> [full]
# Confirms in a scratch worktree: patch applies; existing tests of the touched package (or all with "full") pass with it;
# demo fails with the patch and passes without. Removes the worktree afterwards.
D="$1"; PKG="$2"; RUN="$3"; FULL="$4"
export GOFLAGS=-mod=mod GOPROXY=off GOSUMDB=off GOTOOLCHAIN=local
WT=/tmp/wt/verify.$$
git -C /repo worktree add -q --detach "$WT" HEAD || exit 2
trap 'git -C /repo worktree remove --force "$WT"' EXIT
cd "$WT" || exit 2
git apply "$D/patch.diff" || { echo "RESULT patch does not apply"; exit 2; }
go build ./... && go build -tags verif ./... || { echo "RESULT build fails"; exit 2; }
if [ "$FULL" = full ]; then T=./...; else T="./$PKG/..."; fi
if go test -vet=off -count=1 -timeout 20m $T > /tmp/verify_seed.$$.log 2>&1; then echo "existing tests ($T) with patch: PASS"; else echo "existing tests with patch: FAIL"; grep -E "^(--- FAIL|FAIL|ok)" /tmp/verify_seed.$$.log | head; fi
cp "$D/demo_test.go" "$PKG/zz_demo_test.go"
if go test -vet=off -count=1 -timeout 5m -run "$RUN" "./$PKG" > /tmp/verify_seed.$$.log 2>&1; then echo "demo with patch: PASS (bad)"; else echo "demo with patch: FAIL (good)"; fi
git apply -R "$D/patch.diff"
if go test -vet=off -count=1 -timeout 5m -run "$RUN" "./$PKG" > /tmp/verify_seed.$$.log 2>&1; then echo "demo without patch: PASS (good)"; else echo "demo without patch: FAIL (bad)"; tail -5 /tmp/verify_seed.$$.log; fi
rm -f /tmp/verify_seed.$$.log
