#!/usr/bin/env python3
"""usage: mkmut.py <out.diff> <file relative to /repo> <<< "OLD\n=====\nNEW"   (several hunks: separate with \n#####\n)
Creates a patch against /repo HEAD without leaving /repo modified."""
import sys, subprocess
out, rel = sys.argv[1], sys.argv[2]
spec = sys.stdin.read()
p = '/repo/' + rel
s = open(p).read()
orig = s
for hunk in spec.split('\n#####\n'):
    old, new = hunk.split('\n=====\n')
    old = old.strip('\n'); new = new.strip('\n')
    assert s.count(old) == 1, (s.count(old), old)
    s = s.replace(old, new)
open(p, 'w').write(s)
d = subprocess.run(['git', '-C', '/repo', 'diff', '--', rel], capture_output=True, text=True).stdout
open(p, 'w').write(orig)
open(out, 'w').write(d)
print(d)
