# Per-property configuration of the driver: test package, race detector, level and the steps
# (each step = one process of the compiled test binary with its own -test.run pattern and
# -rapid.checks for the quick / thorough tier; shards_<tier> splits a step over processes).
CHECKS = {
    "C16": dict(
        pkg="c16", race=False, level="exploration", timeout_quick=300, timeout_thorough=3600,
        technique="property-based testing (rapid): reference-equality differential for Equals/Copy, round-trip identities for the codecs; thorough adds coverage-guided native fuzzing of the envelope decoder",
        level_text="Generated-input search: tens of thousands (quick) to ~10^6 (thorough) generated messages, one-component-different message pairs and typed values are pushed through Copy/Equals and every Marshal/Unmarshal pair and compared with an independent reference equality / the original value. Shrunk counter-examples are replayable. Exploration is the right level: the property quantifies over unbounded inputs and the oracle is exact.",
        level_note="Trusted: the harness' reference equality (lib.Snap.Equal), reflect.DeepEqual / proto.Equal, encoding/json and protobuf libraries. Assumes valid UTF-8 strings and finite floats (as the property states). The value families are the harness' own types plus well-known protobuf types, not the user's.",
        steps=[
            dict(name="copy-equals", run="^(TestCopyLaws|TestEqualsAgreesWithReference)$", quick=6000, thorough=6000000, shards_thorough=8),
            dict(name="codecs", run="^(TestJSONMarshalerRoundTrip|TestProtoMarshalerRoundTrip|TestGogoMarshalerRoundTrip|TestEnvelopeRoundTrip|TestEnvelopeBatchRoundTrip|TestReplyRoundTrip)$",
                 quick=2500, thorough=2400000, shards_thorough=8),
            # native coverage-guided fuzzing, thorough tier only (cannot be seeded; the saved input is the replay unit)
            dict(name="fuzz-envelope", fuzz="FuzzEnvelopeUnwrap", tiers=("thorough",), fuzztime_thorough=90),
            dict(name="fuzz-equals", fuzz="FuzzEqualsCopy", tiers=("thorough",), fuzztime_thorough=90),
        ],
    ),
}

CHECKS["C03"] = dict(
    pkg="c03", race=True, level="exploration", timeout_quick=600, timeout_thorough=3600,
    technique="bounded-exhaustive enumeration of call sequences against a 3-state model + rapid-generated concurrent histories checked for linearizability (porcupine) under the race detector",
    level_text="All sequences over {Ack,Nack,probe Acked,probe Nacked} up to length 8 (10 thorough) on four kinds of message are enumerated and compared step by step with the first-wins model (complete for that bound). Concurrent histories of 2..16 goroutines are generated, executed under -race with yield padding and varied GOMAXPROCS, and checked for linearizability against the same model; winner agreement and channel state are checked after the join. Interleavings are sampled, not enumerated, so this is exploration. Copies are taken while their original is being settled and must be fresh, unsettled messages; messages with an ended context are a fifth kind; two single-scenario steps pin the first zero-value settlement of a fresh process (Nack first / Ack first).",
    level_note="Trusted: porcupine's checker, the race detector, one atomic counter as real-time order. Zero-value messages are not probed concurrently with Ack/Nack (documented data race by design, outside the property).",
    steps=[
        dict(name="exhaustive", run="^TestExhaustiveSequences$", quick=1, thorough=1),
        dict(name="histories", run="^TestConcurrentHistories$", quick=10000, thorough=1500000, shards_thorough=13),
        dict(name="first-nack-in-process", run="^TestZeroValueNackFirstInProcess$", quick=1, thorough=1),
        dict(name="first-ack-in-process", run="^TestZeroValueAckFirstInProcess$", quick=1, thorough=1),
        dict(name="copy-during-settlement", run="^TestCopyDuringSettlement$", quick=3000, thorough=300000, shards_thorough=2),
        # zero-value messages with concurrent readers: the field read is racy by design, so no race detector here
        dict(name="zero-value-readers", run="^TestZeroValueConcurrentReaders$", quick=60, thorough=3000, shards_thorough=2, norace=True),
    ],
)

CHECKS["C02"] = dict(
    pkg="c02", race=True, level="exploration", timeout_quick=600, timeout_thorough=3600,
    technique="model-based property testing (rapid) of a running Router between a scripted subscriber and publisher; settlement sampled inside Publish; schedule noise at hook points; race detector",
    level_text="Generated cases (handler behaviour x publisher outcome x handler kind x middleware prefix x 1..6 messages in flight) are run through a real Router whose both ends are scripted, and the observed settlement, handler call count and Publish calls (pointers, order, topic, settlement state during the call) are compared with a model computed from the case. Exploration over a large but finite-shaped case space with random schedules.",
    level_note="Trusted: the scripted Pub/Sub (lib.ScriptSub/ScriptPub) and the model in c02_test.go. Settlement during Publish is sampled at the start and end of the call, so an Ack that lands strictly between is seen at the end sample. 20 s liveness bound for settlement.",
    steps=[
        dict(name="settlement", run="^TestRouterSettlement$", quick=2000, thorough=640000, shards_thorough=16),
    ],
)

CHECKS["C08"] = dict(
    pkg="c08", race=True, level="exploration", timeout_quick=600, timeout_thorough=3600,
    technique="model-based property testing (rapid) of multi-handler Routers over scripted subscribers/publishers: routing bijection, Publish arguments by pointer identity and content, context accessors",
    level_text="Generated router configurations (1..6 handlers with shared topics/subscribers/publishers, no-publisher handlers, output-adding middleware) receive concurrently interleaved message streams; every handler invocation and every Publish call is recorded and compared with the routing model (which function, which publisher and topic, identical pointers in order, unchanged content, context values).",
    level_note="Trusted: scripted Pub/Sub and the model in c08_test.go. Handlers on the same (subscriber, topic) are indistinguishable to a subscriber; the check demands a bijection channel->handler, the strongest sound statement.",
    steps=[dict(name="routing", run="^TestRouting$", quick=1500, thorough=700000, shards_thorough=16)],
)

CHECKS["C09"] = dict(
    pkg="c09", race=False, level="exploration", timeout_quick=600, timeout_thorough=3600,
    technique="bounded-exhaustive enumeration of registration programs + rapid-generated programs, exact expected enter/leave trace and decorator tag order as oracle",
    level_text="Every registration program with up to 5 (quick) / 7 (thorough) middleware registrations over {router-level, handler A, handler B} with the AddHandler calls at every legal position is executed on a real Router and the complete enter/leave trace of each handler is compared with the expected nesting; random programs (up to 20 registrations, 4 handlers, decorator lists up to 5, handler with the empty name) extend this beyond the bound. Complete below the bound, sampled above it. Late registrations: decorators before Run and while running, publishing handlers, a running handler stopped before late ones are added, and every running handler is probed again after each later RunHandlers. Random programs also register through a RouterPlugin, place a forwarder component with its own middlewares on the router, make refused duplicate AddHandler calls, and let handlers return several outputs that share a UUID.",
    level_note="Trusted: the trace recorder middlewares and the expected-order computation in c09_test.go. Registrations after Run are out of scope.",
    steps=[
        dict(name="exhaustive", run="^TestExhaustiveRegistrations$", quick=1, thorough=1),
        dict(name="random", run="^TestRandomRegistrations$", quick=2500, thorough=400000, shards_thorough=10),
        dict(name="late-and-shared", run="^(TestLateRegistrations|TestSharedDecoratedSubscriber)$", quick=400, thorough=60000, shards_thorough=4),
    ],
)

CHECKS["C12"] = dict(
    pkg="c12", race=True, level="exploration", timeout_quick=600, timeout_thorough=3600,
    technique="model-based property testing (rapid) of middleware.Retry against a scripted handler: call count, result identity, hook numbering, back-off band and measured gaps (lower bounds)",
    level_text="Generated Retry configurations and handler outcome scripts are executed with real (millisecond) back-off; the number of handler calls, the identity of the returned outputs/error, the OnRetryHook arguments and the reported/measured delays are compared with a model derived from the documentation, including early give-up on context cancellation and MaxElapsedTime.",
    level_note="Trusted: the model in c12_test.go; wall-clock only as lower bounds plus a 250 ms slack upper bound for MaxElapsedTime. Upper bounds on sleeping are not demanded.",
    steps=[dict(name="retry", run="^TestRetryModel$", quick=500, thorough=120000, shards_thorough=12),
           dict(name="concurrent", run="^TestRetryConcurrentMessages$", quick=120, thorough=20000, shards_thorough=4)],
)

CHECKS["C13"] = dict(
    pkg="c13", race=False, level="exploration", timeout_quick=600, timeout_thorough=3600,
    technique="model-based property testing (rapid) of the PoisonQueue middleware, stand-alone and inside a running Router over scripted Pub/Subs",
    level_text="Generated (message, handler result, filter, poison-publisher outcome) cases are run through PoisonQueue/PoisonQueueWithFilter stand-alone and in a Router; poison publishes (count, topic, UUID/payload, exact metadata), the returned error/outputs and the settlement (sampled inside the poison Publish and at quiescence) are compared with the model.",
    level_note="Trusted: the model in c13_test.go and the scripted Pub/Subs. The fate of outputs returned together with a poisoned error is outside the property.",
    steps=[dict(name="standalone", run="^TestPoisonStandAlone$", quick=4000, thorough=4000000, shards_thorough=8),
           dict(name="router", run="^TestPoisonInRouter$", quick=800, thorough=800000, shards_thorough=8)],
)

CHECKS["C19"] = dict(
    pkg="c19", race=False, level="exploration", timeout_quick=600, timeout_thorough=3600,
    technique="differential property testing (rapid): real middleware chains vs chains of obviously-correct reference middlewares on the same scripted handler; sequence tests for DelayOnError and Throttle",
    level_text="Generated chains of up to 3 simple middlewares (optionally with Retry at any position) are executed next to a reference chain on the same scripted handler and message; call count, outputs (object identity and correlation ids), error identity / carried panic value, escaped panics, ack state at handler entry, the deadline seen inside the call, the context state after the call and the delay metadata are compared. DelayOnError is additionally driven through k consecutive failures with real-valued multipliers, Throttle through timed call sequences incl. messages whose context is already done.",
    level_note="Trusted: the reference middlewares in c19_test.go (5-15 lines each). Timeouts are long enough never to expire; wall-clock is used only for lower bounds (Throttle) and deadline bands.",
    steps=[dict(name="chains", run="^TestChainAgainstReference$", quick=4000, thorough=3000000, shards_thorough=10),
           dict(name="delayseq", run="^TestDelayOnErrorSequence$", quick=2000, thorough=1000000, shards_thorough=2),
           dict(name="throttle", run="^TestThrottleRate$", quick=150, thorough=40000, shards_thorough=4),
           dict(name="throttle-idle", run="^TestThrottleAfterIdle$", quick=8, thorough=200, shards_thorough=4)],
)

CHECKS["C20"] = dict(
    pkg="c20", race=True, level="exploration", timeout_quick=600, timeout_thorough=3600,
    technique="model-based property testing (rapid) of decorator stacks over scripted Pub/Subs: transparency by pointer identity, delay precedence model, exact Prometheus sample counts from a private registry",
    level_text="Generated decorator stacks (message transform, delay.Publisher, metrics decorators incl. the same one twice) are driven with generated batches, delay sources, PublisherConfig settings and failure scripts; the inner publisher/subscriber records every call, which is compared with the transparency and delay-precedence model; Prometheus counts are gathered from a private registry and must equal the harness' own counts, stand-alone and in a Router with handler outcomes success/error/panic/publish failure. The handler metrics middleware is also driven with the same message object several times (Retry outside it, or re-delivery of the object): every invocation is counted.",
    level_note="Trusted: scripted Pub/Subs, the precedence model in c20_test.go, prometheus Gather(). Label values other than success/acked are summed over. The handler metrics middleware is installed once.",
    steps=[dict(name="pubstacks", run="^TestPublisherStacks$", quick=1500, thorough=600000, shards_thorough=8),
           dict(name="substacks", run="^TestSubscriberStacks$", quick=300, thorough=80000, shards_thorough=4),
           dict(name="routermetrics", run="^(TestRouterMetrics|TestHandlerMetricsRepeatedInvocations)$", quick=300, thorough=80000, shards_thorough=4)],
)

CHECKS["C15"] = dict(
    pkg="c15", race=False, level="exploration", timeout_quick=600, timeout_thorough=3600,
    technique="model-based property testing (rapid) of CQRS buses and processors in a running Router over scripted Pub/Subs: bus Publish round-trip, invoked handler list and settlement against a dispatch model",
    level_text="Generated registries (command / event / event-group processors, JSON and Protobuf marshalers, three name generators, both flags) and message streams (values sent through the real bus incl. zero values, types without handler, malformed payloads, foreign messages, per-delivery failing handlers) are executed in a real Router; the bus Publish and, per delivery, the ordered list of invoked handlers with their values, the original message in the context and the settlement are compared with the model.",
    level_note="Trusted: the dispatch model in c15_test.go, scripted Pub/Subs. The type family is the harness' own JSON structs and four well-known protobuf types.",
    steps=[dict(name="dispatch", run="^TestCQRSDispatch$", quick=1200, thorough=2000000, shards_thorough=16)],
)

CHECKS["C17"] = dict(
    pkg="c17", race=True, level="exploration", timeout_quick=600, timeout_thorough=3600,
    technique="model-based property testing (rapid) of Forwarder, FanIn, Requeuer and FanOut between a scripted source (fresh-copy redelivery on Nack) and a scripted destination with generated failure scripts",
    level_text="Generated streams (arbitrary messages, retries counters, malformed envelopes) and destination failure scripts are relayed by the four real components; every destination Publish (topic, UUID/payload/metadata, settlement of the consumed copy inside the call), every settlement and every redelivery is compared with the relay model: no loss once the failures stop, no invention, Ack only after accept, Nack on failure, invalid envelopes never forwarded.",
    level_note="Trusted: scripted Pub/Subs and the relay model in c17_test.go. FanOut order is not demanded (its internal GoChannel promises none).",
    steps=[dict(name="forwarder", run="^TestForwarder$", quick=300, thorough=100000, shards_thorough=4),
           dict(name="fanin", run="^TestFanIn$", quick=200, thorough=60000, shards_thorough=4),
           dict(name="requeuer", run="^TestRequeuer$", quick=200, thorough=60000, shards_thorough=4),
           dict(name="fanout", run="^TestFanOut$", quick=200, thorough=60000, shards_thorough=3),
           dict(name="fwdpub-concurrent", run="^TestForwarderPublisherConcurrent$", quick=300, thorough=60000, shards_thorough=1)],
)

CHECKS["C14"] = dict(
    pkg="c14", race=True, level="exploration", timeout_quick=600, timeout_thorough=3600,
    technique="property-based concurrency testing (rapid): goroutines behind a barrier present generated multisets to the Deduplicator, key classes from an independent reference hash; timed retention sequences; hasher laws as a differential",
    level_text="Generated multisets of messages with payload sizes around the read-limit boundary are presented by up to 32 goroutines at once (several rounds per case, GOMAXPROCS varied) to the middleware and to the publisher decorator; per key class (computed with an independent reference hash) exactly one presentation may pass and all others must be dropped as acked successes. Timed sequences check the lower bound of the retention window and re-acceptance after expiry; the hashers are compared with hash(payload[:min(len,limit)]). Handlers of the concurrency test may fail; the key is presented again right after its re-acceptance; a separate step measures re-acceptance after the repository has been idle for seconds (1.5 x window + 0.6 s, confirmed by a second measurement).",
    level_note="Trusted: the reference hash in c14_test.go, wall-clock used conservatively (retention only asserted for re-presentations that ended inside the window). Interleavings are sampled; the race detector is on.",
    steps=[dict(name="concurrent", run="^TestConcurrentPresentations$", quick=1000, thorough=320000, shards_thorough=40),
           dict(name="laws", run="^TestHasherLaws$", quick=3000, thorough=1000000, shards_thorough=2),
           dict(name="retention", run="^TestRetentionWindow$", quick=60, thorough=3200, shards_thorough=8),
           dict(name="idle", run="^TestReacceptanceAfterIdle$", quick=5, thorough=80, shards_thorough=4)],
)

_GC_NOTE = "Trusted: the history recorder and invariants in harness/gcprog (one atomic logical clock; 'about to settle' stamped before Ack/Nack). Interleavings are sampled (noise, forced parks at hook points, GOMAXPROCS), not enumerated; absence ('nothing else receivable') is observed over hold windows and can only miss violations. A known finding (C05-F1) is excluded by construction."
CHECKS["C04"] = dict(
    pkg="c04", race=True, level="exploration", timeout_quick=900, timeout_thorough=3600,
    technique="property-based testing of generated concurrent programs (rapid) against a real GoChannel with history invariants; schedule perturbation and forced overlaps through hook points; race detector",
    level_text="Generated concurrent Publish/Subscribe programs over all configurations run against the real GoChannel; the complete history (every Publish interval, Subscribe interval, receipt with its message object/content/context, settlement) is recorded and checked: delivery to every current subscriber, redelivery grammar, copy separation, context life cycle. Published messages carry contexts of their own (live or already cancelled). A second test leaves one subscription sitting on an unsettled copy: the other subscriptions must receive everything meanwhile. Two of seven published originals were settled before Publish: their state must stay as it was.",
    level_note=_GC_NOTE,
    steps=[dict(name="delivery", run="^TestDelivery$", quick=500, thorough=160000, shards_thorough=14),
           dict(name="holding", run="^TestHoldingSubscriberDoesNotDelayOthers$", quick=300, thorough=60000, shards_thorough=2)],
)
CHECKS["C05"] = dict(
    pkg="c05", race=True, level="exploration", timeout_quick=900, timeout_thorough=3600,
    technique="property-based testing of generated concurrent programs (rapid) against a real GoChannel: hold-window observation of in-flight exclusivity, blocking-Publish/Ack ordering over the recorded history; known finding reproduced separately",
    level_text="The same program machinery biased to held settlements and blocking mode: the consumer reads its channel while it holds an unsettled message (nothing may arrive), and for blocking mode the history must contain the Ack of every pre-existing subscription before the Publish return stamp, in publish order per publisher; every Publish must return. A third test blocks a Publish on a subscription whose consumer does not read (it may not even have received the message) and releases it by cancelling that subscription or closing the Pub/Sub: Publish must return, nothing is drained before it has. Publish calls made by subscribers while they hold a message (fresh follow-ups, follow-ups carrying the held message's context, the held object itself) are recorded and judged by the same blocking rule.",
    level_note=_GC_NOTE,
    steps=[dict(name="inflight", run="^TestOneInFlightAndBlocking$", quick=500, thorough=160000, shards_thorough=13),
           dict(name="released", run="^TestBlockedPublishReleased$", quick=300, thorough=60000, shards_thorough=2),
           dict(name="known-finding", run="^TestKnownFindingF1$", quick=1, thorough=1)],
)
CHECKS["C11"] = dict(
    pkg="c11", race=True, level="exploration", timeout_quick=900, timeout_thorough=3600,
    technique="property-based testing of generated concurrent Publish/Subscribe programs (rapid) against a persistent GoChannel with forced overlaps at the persist/replay/register hook points; exactly-once multiset oracle at quiescence",
    level_text="Persistent-mode programs with Subscribe calls overlapping Publish calls (forced by parking one side at the hook points between persisting, sending, replaying and registering) are run; at quiescence every subscription must hold exactly one acked delivery of every successfully published message of its topic. Every receipt is also compared with the published UUID, payload and metadata.",
    level_note=_GC_NOTE,
    steps=[dict(name="replay", run="^TestReplayExactlyOnce$", quick=500, thorough=160000, shards_thorough=12),
           dict(name="longhistory", run="^TestLongHistoryOverlap$", quick=120, thorough=4000, shards_thorough=32)],
)

CHECKS["C07"] = dict(
    pkg="c07", race=True, level="fault_enumeration", timeout_quick=900, timeout_thorough=3600,
    technique="bounded-exhaustive pairwise enumeration (operation parked at a hook point x interleaving operation x consumer state x config x decorator depth) with forced schedules, plus rapid-generated concurrent programs with an early Close; termination/closure/leak oracle; race detector",
    level_text="The complete table of (configuration, decorator depth, operation A parked at each of its hook points, operation B, consumer state) is enumerated (quick: one eighth chosen by seed; thorough: all entries over 16 shards); in every entry B is invoked while A is parked, then A is released and the Pub/Sub closed. Every call must return, every output channel must close, Publish/Subscribe must fail afterwards and no Pub/Sub goroutine may remain; random programs with a Close landing between generated Publish calls extend this beyond pairs. The table has a sixth operation (Subscribe with an already cancelled context) and counts the decorator's forwarding goroutines of a cancelled, unread subscription before anything is read; a burst test releases 2..8 Close calls from a spin barrier.",
    level_note="Trusted: the hook controller (park/release), goroutine-dump based leak detection, 10 s liveness bounds re-confirmed by one re-run. Entries whose hook point is not reached run unforced and are counted as such. " + _GC_NOTE,
    steps=[dict(name="table", run="^TestPairwiseTable$", quick=1, thorough=1, shards_thorough=12),
           dict(name="random", run="^TestRandomCloseCancel$", quick=200, thorough=100000, shards_thorough=3),
           dict(name="close-burst", run="^TestConcurrentCloseBurst$", quick=60, thorough=6000)],
)

CHECKS["C06"] = dict(
    pkg="c06", race=True, level="exploration", timeout_quick=900, timeout_thorough=3600,
    technique="property-based testing (rapid) of Router shutdown scenarios with forced schedules: the subject message is parked at a generated point of its path (hook points / handler gate / emitted inside the subscriber's Close) while 1..8 callers invoke Close; state sampled synchronously at every Close return and at Run's return",
    level_text="Generated shutdown scenarios over handler sets, CloseTimeouts, caller counts, path points and release delays run against a real Router with scripted subscribers/publishers (and a GoChannel variant). Handler progress and settlement of every emitted message are sampled in the calling goroutine at the instant each Close call returns, at Run's return and after a 50 ms window, and compared with the graceful-close contract; time-outs must surface as an error in time. Further dimensions: subscriptions that end by themselves while an invocation runs, shutdown started through the Run context, a publisher whose Publish returns only when it is closed, a draining subscriber with a handler far beyond the timeout (Close must return within CloseTimeout+3 s); separate tests for Close while RunHandlers is between two handlers and for Close before Run (a Close that returned nil is held to 'none will start afterwards'). A further step calls Close (1..3 callers, and once more) after a start-up that failed in a Subscribe or in a plugin: every call returns. Handlers may fail with an error that wraps context.Canceled; every second handler publishes to the empty topic.",
    level_note="Trusted: the hook controller, synchronous sampling in the caller goroutine, scripted Pub/Subs. The path points are those instrumented; schedules between un-instrumented instructions are reached only by noise. 10 s liveness bounds re-confirmed once.",
    steps=[dict(name="close", run="^TestGracefulClose$", quick=160, thorough=36000, shards_thorough=15),
           dict(name="close-while-starting", run="^(TestCloseWhileStarting|TestCloseBeforeRun)$", quick=100, thorough=20000),
           dict(name="close-after-failed-startup", run="^TestCloseAfterFailedStartup$", quick=40, thorough=3000)],
)

CHECKS["C10"] = dict(
    pkg="c10", race=True, level="exploration", timeout_quick=900, timeout_thorough=3600,
    technique="stateful model-based testing (rapid state machine) of the Router lifecycle API over scripted subscribers, plus a forced schedule parking RunHandlers right after Started() closes; race detector",
    level_text="rapid drives random lifecycle programs (AddHandler before/after Run, Run, RunHandlers repeated and concurrent, Stop, context cancel, Close, probes) against a real Router and checks a model after every step: subscriptions per handler, Running() vs subscriptions, probe handling, Stop/Stopped usability, Run's return, second Run. The Started()->Stop() window is forced by parking the starter at a hook point. Forced tests: Stop of a started handler must return while RunHandlers is busy with other handlers; Run context cancelled before Run / during start-up; a second Run during start-up; Close before Run followed by Run; a failing Subscribe (Running() closed implies every handler subscribed). The machine also stops handlers twice, lets a publisher fail to Close and requires Stopped() of every started handler once Run has returned. It makes AddHandler calls the router refuses (name taken) and bounds its own AddHandler/RunHandlers calls by the liveness bound.",
    level_note="Trusted: the lifecycle model in c10_test.go, scripted subscribers. Shutting down while a handler added after Run was never started is outside the property (documented need to call RunHandlers).",
    steps=[dict(name="machine", run="^TestLifecycleMachine$", quick=300, thorough=480000, shards_thorough=24),
           dict(name="forced-stop", run="^(TestStopRightAfterStarted|TestStopWithMessageInFlight|TestCloseDuringStartup|TestStartupInterference)$", quick=100, thorough=20000, shards_thorough=4)],
)

CHECKS["C18"] = dict(
    pkg="c18", race=True, level="exploration", timeout_quick=900, timeout_thorough=3600,
    technique="property-based testing (rapid) of concurrent request-reply programs: real command bus/processor/backend over a GoChannel reply topic, commands relayed through a scripted subscriber, reply publisher wrapped to sample settlement; listener termination checked before the caller drains",
    level_text="Generated programs of 1..32 concurrent callers with handler scripts (failures producing several replies through Nack redelivery), both AckCommandErrors settings, optional time-outs and caller behaviours that stop reading or cancel at different moments run against the real request-reply components; every received reply, every command settlement relative to its reply Publish, the finish hook per request, reply-channel closure and leftover listener goroutines are checked. Also generated: configurations without the finished-hook, callers with far deadlines, foreign notifications of other result types (a few, or sustained for longer than the timeout), handler errors wrapping context errors, callers that start draining late, a far-away timeout with cancelling callers.",
    level_note="Trusted: the scripted command relay, the reply-publisher wrapper and the goroutine-dump based leak detection. The terminal time-out reply is exempt from the own-command rule.",
    steps=[dict(name="requestreply", run="^TestRequestReply$", quick=150, thorough=90000, shards_thorough=14),
           dict(name="reply-publish-failure", run="^TestReplyPublishFailure$", quick=300, thorough=60000, shards_thorough=2)],
)

CHECKS["C01"] = dict(
    pkg="c01", race=True, level="fault_enumeration", timeout_quick=900, timeout_thorough=3600,
    technique="fault-script enumeration and rapid-generated fault sequences on real Router/GoChannel pipelines (faults injected in handlers and in a publisher wrapper on the k-th call), lineage-based at-least-once oracle and ack-after-accept invariant over every invocation",
    level_text="Pipelines of real Routers over real GoChannels are run with scripted faults: every placement of up to 2 faults (5 kinds x k in 1..3) on small pipelines is enumerated, longer random fault scripts cover all shapes (fan-in, fan-out, 1..4 stages, blocking, per-hop instances) with schedule noise. Every source message must reach the final topic for every path, everything at the final topic must derive from a published source with the expected transform, and every invocation's consumed copy must be unsettled inside its output Publish and end Acked only after a successful Publish, otherwise Nacked. Topic names of the random pipelines are generated strings (incl. the empty name and names with blanks around them).",
    level_note="Trusted: the fault-injecting publisher wrapper, lineage bookkeeping in handler metadata, bounded liveness (10 s, re-confirmed). Crash points (process death) are not modelled: GoChannel is in-process.",
    steps=[dict(name="exhaustive", run="^TestExhaustiveFaultPlacements$", quick=1, thorough=1),
           dict(name="random", run="^TestRandomPipelines$", quick=300, thorough=120000, shards_thorough=15)],
)

NOT_APPLICABLE = {}
