#!/bin/sh
# setup_cmd: offline; builds every check's test binary once (plain and -race) to warm the Go
# build cache. Checks rebuild from /repo's working tree on every run anyway.
cd "$(dirname "$0")" || exit 2
export GOFLAGS=-mod=mod GOPROXY=off GOSUMDB=off GOTOOLCHAIN=local
mkdir -p evidence replays .build
exec python3 ./check --setup
