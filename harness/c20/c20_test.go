// C20 — Pub/Sub decorators are transparent; delay stamps and metrics count exactly.
package c20

import (
	"context"
	stderrors "errors"
	"fmt"
	"strings"
	"sync"
	"testing"
	"time"

	"github.com/ThreeDotsLabs/watermill"
	"github.com/ThreeDotsLabs/watermill/components/delay"
	"github.com/ThreeDotsLabs/watermill/components/metrics"
	"github.com/ThreeDotsLabs/watermill/message"
	"github.com/ThreeDotsLabs/watermill/message/router/middleware"
	"github.com/ThreeDotsLabs/watermill/verifharness/lib"
	"github.com/prometheus/client_golang/prometheus"
	"pgregory.net/rapid"
)

func TestMain(m *testing.M) {
	lib.Extra("rule", "rapid-generated decorator stacks (depth <= 3) of {message-transform, delay.Publisher, Prometheus metrics decorator (also the same one twice)} over scripted publishers/subscribers; "+
		"batches of 1..5 fresh messages each with {pre-set delay metadata, context delay For/Until (past, zero, far future), none}; PublisherConfig {generator present/absent/failing, AllowNoDelay}; inner-publisher failure scripts; "+
		"Router runs with metrics decorators applied once or twice and handler outcomes {success, error, panic, publish failure}. Oracle: transparency (same pointers, order, one inner call per outer call, errors and Close pass through, settlement reaches the inner message), "+
		"delay precedence model with until-for bracketed by harness time stamps, and exact Prometheus sample counts from a private registry. Non-trivial: stack depth >= 2, or a batch mixing delay sources, or a non-success outcome."+
		" Subscriber stacks: 1 of 3 cases leaves an unread message in the stack when the subscription ends (Close, or cancel then Close): it is in no metrics count.")
	lib.Extra("assumptions", []string{
		"every message object is published in one call only (one call may list it twice); empty batches are passed through uncounted by design",
		"label values other than success/acked are summed over; the handler middleware is installed once (idempotency is a property of the decorators, not of the middleware)",
		"metrics of received messages are counted asynchronously: the check waits (bounded) for the expected total, then a grace window, then demands equality",
	})
	lib.Main(m)
}

var errInner = stderrors.New("inner publisher failure")
var errGen = stderrors.New("delay generator failure")

// ---------- publisher stacks ----------

type pubLayer struct {
	Kind string // "transform", "delay", "metrics"
}

type msgSpec struct {
	Source int // 0 none, 1 metadata preset, 2 ctx For, 3 ctx Until, 4 metadata preset by another producer: delayed-for only
	DurMs  int64
}

type pubCase struct {
	Layers   []pubLayer // outermost first
	Gen      int        // 0 absent, 1 present, 2 failing
	AllowNo  bool
	Batches  [][]msgSpec
	FailCall map[int]bool // inner publisher fails on these call numbers
	EmptyAt  int          // index of a batch replaced by an empty Publish call (-1 none)
}

func genPubCase(t *rapid.T) pubCase {
	c := pubCase{FailCall: map[int]bool{}, EmptyAt: -1}
	n := rapid.IntRange(1, 3).Draw(t, "depth")
	for i := 0; i < n; i++ {
		c.Layers = append(c.Layers, pubLayer{rapid.SampledFrom([]string{"transform", "delay", "metrics", "metrics"}).Draw(t, "layer")})
	}
	c.Gen = rapid.IntRange(0, 2).Draw(t, "generator")
	c.AllowNo = rapid.Bool().Draw(t, "allowNoDelay")
	nb := rapid.IntRange(1, 4).Draw(t, "batches")
	for b := 0; b < nb; b++ {
		var batch []msgSpec
		k := rapid.IntRange(1, 5).Draw(t, "batchSize")
		for i := 0; i < k; i++ {
			ms := msgSpec{Source: rapid.SampledFrom([]int{0, 0, 1, 2, 2, 3, 4}).Draw(t, "delaySource")}
			ms.DurMs = rapid.SampledFrom([]int64{0, 1, 1500, -5000, 3600000 * 24 * 365, 250}).Draw(t, "delayMs")
			batch = append(batch, ms)
		}
		c.Batches = append(c.Batches, batch)
		if rapid.IntRange(0, 4).Draw(t, "innerFails") == 0 {
			c.FailCall[b] = true
		}
	}
	if rapid.IntRange(0, 5).Draw(t, "emptyBatch") == 0 {
		c.EmptyAt = rapid.IntRange(0, nb-1).Draw(t, "emptyAt")
	}
	return c
}

func (c pubCase) canon() string {
	return fmt.Sprintf("%v|%d|%v|%v|%v|%d", c.Layers, c.Gen, c.AllowNo, c.Batches, c.FailCall, c.EmptyAt)
}

func TestPublisherStacks(t *testing.T) {
	rapid.Check(t, func(t *rapid.T) {
		c := genPubCase(t)
		inner := lib.NewScriptPub("")
		innerCalls := 0
		inner.OnPublish = func(pc *lib.PubCall) error {
			innerCalls++
			if f := pc.Aux; f != nil {
				return nil
			}
			return nil
		}
		reg := prometheus.NewRegistry()
		b := metrics.NewPrometheusMetricsBuilder(reg, "", "")
		var pub message.Publisher = inner
		transformSeen := map[*message.Message]int{}
		genCalls := 0
		genDelay := delay.For(42 * time.Second)
		hasDelay, hasMetrics := false, false
		for i := len(c.Layers) - 1; i >= 0; i-- {
			var err error
			switch c.Layers[i].Kind {
			case "transform":
				pub, err = message.MessageTransformPublisherDecorator(func(m *message.Message) { transformSeen[m]++ })(pub)
			case "delay":
				hasDelay = true
				cfg := delay.PublisherConfig{AllowNoDelay: c.AllowNo}
				switch c.Gen {
				case 1:
					cfg.DefaultDelayGenerator = func(p delay.DefaultDelayGeneratorParams) (delay.Delay, error) { genCalls++; return genDelay, nil }
				case 2:
					cfg.DefaultDelayGenerator = func(p delay.DefaultDelayGeneratorParams) (delay.Delay, error) {
						genCalls++
						return delay.Delay{}, errGen
					}
				}
				pub, err = delay.NewPublisher(pub, cfg)
			case "metrics":
				hasMetrics = true
				pub, err = b.DecoratePublisher(pub)
			}
			if err != nil {
				t.Fatalf("decorator constructor failed: %v", err)
			}
		}
		nDelayLayers := 0
		for _, l := range c.Layers {
			if l.Kind == "delay" {
				nDelayLayers++
			}
		}
		nTransform := 0
		for _, l := range c.Layers {
			if l.Kind == "transform" {
				nTransform++
			}
		}
		wantOK, wantFail := 0, 0
		mixed := false
		expectInner := 0
		for bi, batch := range c.Batches {
			topic := fmt.Sprintf("topic-%d", bi)
			if bi == c.EmptyAt {
				before := len(inner.Calls())
				inner.OnPublish = nil
				if err := pub.Publish(topic); err != nil {
					t.Fatalf("violation: empty Publish returned %v", err)
				}
				if len(inner.Calls()) != before+1 {
					t.Fatalf("violation: empty Publish call did not reach the inner publisher exactly once")
				}
				expectInner++
				continue
			}
			var msgs []*message.Message
			type expT struct {
				kind            string // "untouched", "ctx", "gen", "none"
				forStr          string
				before, after   time.Time
				presetFor, pUnt string
			}
			exps := make([]expT, len(batch))
			refuse := ""
			srcs := map[int]bool{}
			for i, ms := range batch {
				srcs[ms.Source] = true
				m := message.NewMessage(fmt.Sprintf("b%d-m%d", bi, i), []byte("p"))
				d := time.Duration(ms.DurMs) * time.Millisecond
				e := expT{}
				switch ms.Source {
				case 1:
					e.before = time.Now()
					delay.Message(m, delay.For(d))
					e.after = time.Now()
					e.kind = "untouched"
					e.presetFor, e.pUnt = m.Metadata.Get(delay.DelayedForKey), m.Metadata.Get(delay.DelayedUntilKey)
				case 4:
					// a delay that is already in the metadata (the delayed-for key is what says so) stays as it is
					m.Metadata[delay.DelayedForKey] = d.String()
					e.kind = "untouched"
					e.presetFor, e.pUnt = d.String(), ""
				case 2:
					e.before = time.Now()
					m.SetContext(delay.WithContext(context.Background(), delay.For(d)))
					e.after = time.Now()
					e.kind, e.forStr = "ctx", d.String()
				case 3:
					e.before = time.Now()
					m.SetContext(delay.WithContext(context.Background(), delay.Until(time.Now().Add(d))))
					e.after = time.Now()
					e.kind = "ctx-until"
				default:
					switch {
					case c.Gen == 1:
						e.kind, e.forStr = "gen", (42 * time.Second).String()
					case c.Gen == 2:
						e.kind = "none"
						if refuse == "" {
							refuse = "generator fails"
						}
					default:
						e.kind = "none"
						if !c.AllowNo && refuse == "" {
							refuse = "no delay available"
						}
					}
				}
				exps[i] = e
				msgs = append(msgs, m)
			}
			if len(srcs) > 1 {
				mixed = true
			}
			if !hasDelay {
				refuse = ""
			}
			if !hasDelay && nTransform == 0 && (bi+len(batch))%3 == 0 {
				// one call may list a message object twice (a handler that returns its output twice): it is one call all the same
				msgs = append(msgs, msgs[len(msgs)-1])
			}
			fail := c.FailCall[bi]
			inner.OnPublish = func(pc *lib.PubCall) error {
				if fail {
					return errInner
				}
				return nil
			}
			before := len(inner.Calls())
			err := pub.Publish(topic, msgs...)
			calls := inner.Calls()[before:]
			if refuse != "" {
				if err == nil {
					t.Fatalf("violation: batch %d must be refused (%s) but Publish returned nil", bi, refuse)
				}
				if len(calls) != 0 {
					t.Fatalf("violation: batch %d refused (%s) but %d inner publishes happened", bi, refuse, len(calls))
				}
				if c.Gen == 2 && err != errGen && !stderrors.Is(err, errGen) {
					t.Fatalf("violation: generator error not passed through: %v", err)
				}
				// a metrics decorator outside the refusing (outermost) delay publisher observes a failed publish;
				// one below it never sees the call
				for _, l := range c.Layers {
					if l.Kind == "delay" {
						break
					}
					if l.Kind == "metrics" {
						wantFail++
						break
					}
				}
				continue
			}
			expectInner++
			if len(calls) != 1 {
				t.Fatalf("violation: %d inner Publish calls for one outer call (batch must be forwarded in one call)", len(calls))
			}
			pc := calls[0]
			if pc.Topic != topic {
				t.Fatalf("violation: topic changed %q -> %q", topic, pc.Topic)
			}
			if len(pc.Msgs) != len(msgs) {
				t.Fatalf("violation: inner publisher got %d messages, outer call had %d", len(pc.Msgs), len(msgs))
			}
			for i := range msgs {
				if pc.Msgs[i] != msgs[i] {
					t.Fatalf("violation: message %d is not the same object / order changed", i)
				}
				if transformSeen[msgs[i]] != nTransform {
					t.Fatalf("violation: transform ran %d times on message %d, %d transform decorators installed", transformSeen[msgs[i]], i, nTransform)
				}
			}
			if fail {
				if err != errInner && !stderrors.Is(err, errInner) {
					t.Fatalf("violation: inner error not passed through: %v", err)
				}
			} else if err != nil {
				t.Fatalf("violation: inner publisher accepted but outer Publish returned %v", err)
			}
			if hasMetrics {
				if fail {
					wantFail++
				} else {
					wantOK++
				}
			}
			// delay stamps as seen by the inner publisher
			for i, e := range exps {
				got := pc.Snaps[i].Meta
				gf, gu := got[delay.DelayedForKey], got[delay.DelayedUntilKey]
				if !hasDelay {
					if e.kind != "untouched" && (gf != "" || gu != "") {
						t.Fatalf("violation: message %d stamped without a delay publisher", i)
					}
					continue
				}
				switch e.kind {
				case "untouched":
					if gf != e.presetFor || gu != e.pUnt {
						t.Fatalf("violation: pre-set delay metadata of message %d changed: for %q->%q until %q->%q", i, e.presetFor, gf, e.pUnt, gu)
					}
				case "none":
					if gf != "" || gu != "" {
						t.Fatalf("violation: message %d has no delay source but was stamped for=%q until=%q", i, gf, gu)
					}
				case "gen":
					if gf != e.forStr {
						t.Fatalf("violation: message %d: delayed-for %q, generator says %q", i, gf, e.forStr)
					}
				case "ctx", "ctx-until":
					if gf == "" || gu == "" {
						t.Fatalf("violation: message %d carries a context delay (%v ms) but was not stamped (for=%q until=%q)", i, batch[i].DurMs, gf, gu)
					}
					if e.kind == "ctx" && gf != e.forStr {
						t.Fatalf("violation: message %d: delayed-for %q, context delay is %q", i, gf, e.forStr)
					}
					// until - for = creation instant of the Delay, bracketed by harness stamps (RFC3339 truncates to 1 s)
					f, ferr := time.ParseDuration(gf)
					u, uerr := time.Parse(time.RFC3339, gu)
					if ferr != nil || uerr != nil {
						t.Fatalf("violation: message %d: unparsable stamps for=%q until=%q", i, gf, gu)
					}
					created := u.Add(-f)
					if created.Before(e.before.Add(-time.Second-time.Millisecond)) || created.After(e.after.Add(time.Millisecond)) {
						t.Fatalf("violation: message %d: delayed-until (%s) and delayed-for (%s) disagree: until-for=%s, Delay created in [%s, %s]",
							i, gu, gf, created.Format(time.RFC3339Nano), e.before.Format(time.RFC3339Nano), e.after.Format(time.RFC3339Nano))
					}
				}
			}
		}
		// Close passes through once
		if err := pub.Close(); err != nil {
			t.Fatalf("violation: Close returned %v", err)
		}
		if inner.CloseCalls() != 1 {
			t.Fatalf("violation: inner publisher closed %d times for one outer Close", inner.CloseCalls())
		}
		if got := len(inner.Calls()); got != expectInner {
			t.Fatalf("violation: inner publisher saw %d calls, model %d", got, expectInner)
		}
		if hasMetrics {
			ok, fl := histCounts(t, reg, "publish_time_seconds")
			if ok != wantOK || fl != wantFail {
				t.Fatalf("violation: publish_time_seconds sample counts success=true:%d false:%d, harness counted %d successful and %d failed publish calls (layers %v)", ok, fl, wantOK, wantFail, c.Layers)
			}
		}
		nontrivial := len(c.Layers) >= 2 || mixed || len(c.FailCall) > 0
		cls := []string{fmt.Sprintf("pub-depth=%d", len(c.Layers))}
		if nDelayLayers > 0 {
			cls = append(cls, "pub-has-delay")
		}
		metricsN := 0
		for _, l := range c.Layers {
			if l.Kind == "metrics" {
				metricsN++
			}
		}
		if metricsN >= 2 {
			cls = append(cls, "pub-metrics-twice")
		}
		lib.Case("pub|"+c.canon(), nontrivial, cls...)
		if nontrivial {
			lib.Sample(map[string]any{"test": "PublisherStacks", "layers": fmt.Sprint(c.Layers), "generator": c.Gen, "allow_no_delay": c.AllowNo, "batches": fmt.Sprint(c.Batches), "inner_fails_on": fmt.Sprint(c.FailCall)})
		}
	})
}

func histCounts(t *rapid.T, reg *prometheus.Registry, name string) (okCount, failCount int) {
	mfs, err := reg.Gather()
	if err != nil {
		t.Fatalf("Gather: %v", err)
	}
	for _, mf := range mfs {
		if mf.GetName() != name {
			continue
		}
		for _, m := range mf.GetMetric() {
			succ := ""
			for _, l := range m.GetLabel() {
				if l.GetName() == "success" {
					succ = l.GetValue()
				}
			}
			n := int(m.GetHistogram().GetSampleCount())
			if succ == "true" {
				okCount += n
			} else {
				failCount += n
			}
		}
	}
	return
}

func counterCounts(reg *prometheus.Registry, name string) (acked, nacked int) {
	mfs, _ := reg.Gather()
	for _, mf := range mfs {
		if mf.GetName() != name {
			continue
		}
		for _, m := range mf.GetMetric() {
			a := ""
			for _, l := range m.GetLabel() {
				if l.GetName() == "acked" {
					a = l.GetValue()
				}
			}
			n := int(m.GetCounter().GetValue())
			if a == "acked" {
				acked += n
			} else {
				nacked += n
			}
		}
	}
	return
}

// ---------- subscriber stacks ----------

func TestSubscriberStacks(t *testing.T) {
	rapid.Check(t, func(t *rapid.T) {
		n := rapid.IntRange(1, 3).Draw(t, "depth")
		var layers []string
		for i := 0; i < n; i++ {
			layers = append(layers, rapid.SampledFrom([]string{"transform", "metrics", "metrics"}).Draw(t, "layer"))
		}
		inner := lib.NewScriptSub("")
		firstCloseFails := rapid.Bool().Draw(t, "firstInnerCloseFails")
		errClose := stderrors.New("inner close failed")
		inner.CloseErr = func(call int) error {
			if firstCloseFails && call == 1 {
				return errClose
			}
			return nil
		}
		reg := prometheus.NewRegistry()
		b := metrics.NewPrometheusMetricsBuilder(reg, "", "")
		var sub message.Subscriber = inner
		var mu sync.Mutex
		transformSeen := map[*message.Message]int{}
		nTransform, nMetrics := 0, 0
		for i := len(layers) - 1; i >= 0; i-- {
			var err error
			if layers[i] == "transform" {
				nTransform++
				sub, err = message.MessageTransformSubscriberDecorator(func(m *message.Message) { mu.Lock(); transformSeen[m]++; mu.Unlock() })(sub)
			} else {
				nMetrics++
				sub, err = b.DecorateSubscriber(sub)
			}
			if err != nil {
				t.Fatalf("decorator constructor failed: %v", err)
			}
		}
		ctx, cancel := context.WithCancel(context.Background())
		defer cancel()
		out, err := sub.Subscribe(ctx, "topic")
		if err != nil {
			t.Fatalf("Subscribe: %v", err)
		}
		subs := inner.Subs()
		if len(subs) != 1 || subs[0].Topic != "topic" {
			t.Fatalf("violation: inner subscriber saw %d Subscribe calls (topic %q)", len(subs), subs[0].Topic)
		}
		k := rapid.IntRange(1, 6).Draw(t, "messages")
		acks := make([]bool, k)
		wantA, wantN := 0, 0
		lateSettle := rapid.IntRange(0, 2).Draw(t, "lastMessageSettledAfterClose") == 0
		var lateMsg *message.Message
		var lateDelivery *lib.Delivery
		for i := 0; i < k; i++ {
			acks[i] = rapid.Bool().Draw(t, "ack")
			m := message.NewMessage(fmt.Sprint("m", i), nil)
			emitted := make(chan *lib.Delivery, 1)
			go func() { d, _ := subs[0].Emit(m, "", 0, lib.Live); emitted <- d }()
			var got *message.Message
			select {
			case got = <-out:
			case <-time.After(lib.Live):
				t.Fatalf("violation: message %d did not pass through the decorator stack", i)
			}
			d := <-emitted
			if got != m {
				t.Fatalf("violation: received message %d is not the inner subscriber's object", i)
			}
			mu.Lock()
			seen := transformSeen[m]
			mu.Unlock()
			if seen != nTransform {
				t.Fatalf("violation: transform ran %d times, %d transform decorators installed", seen, nTransform)
			}
			if lateSettle && i == k-1 {
				// received now, settled only after the subscriber was closed (a handler still working during shutdown)
				lateMsg, lateDelivery = got, d
				continue
			}
			if acks[i] {
				got.Ack()
				wantA++
			} else {
				got.Nack()
				wantN++
			}
			if a, ok := d.Wait(lib.Live); !ok || a != acks[i] {
				t.Fatalf("violation: settling the received message did not settle the inner subscriber's message")
			}
		}
		if nMetrics > 0 {
			lib.WaitUntil(lib.Live, func() bool {
				a, n := counterCounts(reg, "subscriber_messages_received_total")
				return a+n >= wantA+wantN
			})
			time.Sleep(3 * time.Millisecond)
			a, nn := counterCounts(reg, "subscriber_messages_received_total")
			if a != wantA || nn != wantN {
				t.Fatalf("violation: subscriber_messages_received_total acked=%d nacked=%d, harness settled %d acked / %d nacked (layers %v)", a, nn, wantA, wantN, layers)
			}
		}
		// a message may be on its way through the stack, not yet read by anybody, when the subscription ends
		pending := rapid.IntRange(0, 2).Draw(t, "unreadMessageInTheStackWhenTheSubscriptionEnds") == 0
		if pending {
			if _, ok := subs[0].Emit(message.NewMessage("never-read", nil), "", 0, lib.Live); !ok {
				t.Fatalf("violation: the decorator stack did not take the next message from the inner subscriber")
			}
			time.Sleep(time.Millisecond)
			if rapid.Bool().Draw(t, "subscriptionContextCancelledFirst") {
				cancel()
				time.Sleep(time.Millisecond)
			}
		}
		// Close passes through and the output channel closes
		done := make(chan error, 1)
		go func() { done <- sub.Close() }()
		select {
		case err := <-done:
			if firstCloseFails != (err != nil) || (err != nil && err != errClose && !stderrors.Is(err, errClose)) {
				t.Fatalf("violation: Close returned %v, the inner subscriber's Close returned error=%v", err, firstCloseFails)
			}
		case <-time.After(lib.Live):
			t.Fatalf("violation: Close of the decorated subscriber did not return")
		}
		if inner.CloseCalls() != 1 {
			t.Fatalf("violation: inner subscriber closed %d times for one outer Close", inner.CloseCalls())
		}
		// a second Close passes through as well (e.g. a retry after a failed Close)
		if rapid.Bool().Draw(t, "closeAgain") {
			if err := sub.Close(); err != nil {
				t.Fatalf("violation: second Close returned %v", err)
			}
			if inner.CloseCalls() != 2 {
				t.Fatalf("violation: the second outer Close did not reach the inner subscriber (inner Close calls: %d)", inner.CloseCalls())
			}
		}
		select {
		case _, ok := <-out:
			if ok {
				t.Fatalf("violation: message invented after Close")
			}
		case <-time.After(lib.Live):
			t.Fatalf("violation: output channel not closed after Close")
		}
		if lateMsg != nil {
			if acks[k-1] {
				lateMsg.Ack()
				wantA++
			} else {
				lateMsg.Nack()
				wantN++
			}
			if a, ok := lateDelivery.Wait(lib.Live); !ok || a != acks[k-1] {
				t.Fatalf("violation: settling the received message after Close did not settle the inner subscriber's message")
			}
			if nMetrics > 0 {
				lib.WaitUntil(lib.Live, func() bool {
					a, n := counterCounts(reg, "subscriber_messages_received_total")
					return a+n >= wantA+wantN
				})
				time.Sleep(3 * time.Millisecond)
				a, nn := counterCounts(reg, "subscriber_messages_received_total")
				if a != wantA || nn != wantN {
					t.Fatalf("violation: subscriber_messages_received_total acked=%d nacked=%d after a message received before Close was settled after it; harness settled %d acked / %d nacked (layers %v)", a, nn, wantA, wantN, layers)
				}
			}
		}
		if pending && nMetrics > 0 {
			// nobody received that message and nobody settled it: it is in no count
			time.Sleep(5 * time.Millisecond)
			if a, nn := counterCounts(reg, "subscriber_messages_received_total"); a != wantA || nn != wantN {
				t.Fatalf("violation: subscriber_messages_received_total acked=%d nacked=%d although the harness settled %d acked / %d nacked: a message that was still unread in the decorator stack when the subscription ended (never received, never settled) was counted (layers %v)", a, nn, wantA, wantN, layers)
			}
		}
		cls := []string{fmt.Sprintf("sub-depth=%d", n), fmt.Sprintf("settled-after-close=%v", lateMsg != nil), fmt.Sprintf("unread-message-at-end=%v", pending)}
		if nMetrics >= 2 {
			cls = append(cls, "sub-metrics-twice")
		}
		lib.Case(fmt.Sprintf("sub|%v|%v|%v|%v", layers, acks, lateSettle, pending), n >= 2 || wantN > 0, cls...)
		lib.Sample(map[string]any{"test": "SubscriberStacks", "layers": fmt.Sprint(layers), "acks": fmt.Sprint(acks)})
	})
}

// ---------- metrics in a Router ----------

func TestRouterMetrics(t *testing.T) {
	rapid.Check(t, func(t *rapid.T) {
		twice := rapid.Bool().Draw(t, "decoratorsAppliedTwice")
		k := rapid.IntRange(1, 6).Draw(t, "messages")
		type spec struct{ Outcome, Outs int } // 0 success, 1 error, 2 panic, 3 publish failure, 4 pass the consumed message through
		specs := make([]spec, k)
		for i := range specs {
			specs[i] = spec{Outcome: rapid.SampledFrom([]int{0, 0, 1, 2, 3, 4}).Draw(t, "outcome"), Outs: rapid.IntRange(0, 2).Draw(t, "outputs")}
			if specs[i].Outcome == 3 && specs[i].Outs == 0 {
				specs[i].Outs = 1
			}
		}
		reg := prometheus.NewRegistry()
		b := metrics.NewPrometheusMetricsBuilder(reg, "ns", "sub")
		router, err := message.NewRouter(message.RouterConfig{CloseTimeout: 5 * time.Second}, watermill.NopLogger{})
		if err != nil {
			t.Fatalf("NewRouter: %v", err)
		}
		b.AddPrometheusRouterMetrics(router)
		if twice {
			router.AddPublisherDecorators(b.DecoratePublisher)
			router.AddSubscriberDecorators(b.DecorateSubscriber)
		}
		sub := lib.NewScriptSub("")
		pub := lib.NewScriptPub("")
		pub.OnPublish = func(pc *lib.PubCall) error {
			var idx int
			if _, err := fmt.Sscanf(pc.Snaps[0].Meta["src"], "%d", &idx); err != nil {
				fmt.Sscanf(pc.Snaps[0].UUID, "%d", &idx) // the consumed message passed through
			}
			if specs[idx].Outcome == 3 {
				return errInner
			}
			return nil
		}
		router.AddHandler("h", "in", sub, "out", pub, func(m *message.Message) ([]*message.Message, error) {
			var idx int
			fmt.Sscanf(m.UUID, "%d", &idx)
			sp := specs[idx]
			var outs []*message.Message
			for i := 0; i < sp.Outs; i++ {
				o := message.NewMessage(fmt.Sprintf("%d-o%d", idx, i), nil)
				o.Metadata.Set("src", fmt.Sprint(idx))
				outs = append(outs, o)
			}
			switch sp.Outcome {
			case 1:
				return nil, stderrors.New("handler error")
			case 2:
				panic("handler panic")
			case 4:
				// message.PassthroughHandler style: the consumed message object is the output
				return []*message.Message{m}, nil
			}
			return outs, nil
		})
		go router.Run(context.Background())
		select {
		case <-router.Running():
		case <-time.After(lib.Live):
			t.Fatalf("harness: router did not start")
		}
		s := sub.Subs()[0]
		wantAck, wantNack, wantPubOK, wantPubFail, wantErr := 0, 0, 0, 0, 0
		for i, sp := range specs {
			m := message.NewMessage(fmt.Sprint(i), nil)
			d, ok := s.Emit(m, "", 0, lib.Live)
			if !ok {
				t.Fatalf("harness: router did not take message %d", i)
			}
			acked, ok := d.Wait(2 * lib.Live)
			if !ok {
				t.Fatalf("violation: message %d never settled", i)
			}
			if acked {
				wantAck++
			} else {
				wantNack++
			}
			switch sp.Outcome {
			case 0:
				if sp.Outs > 0 {
					wantPubOK++
				}
			case 4:
				wantPubOK++
			case 1:
				wantErr++
			case 3:
				wantPubFail++
			}
		}
		lib.WaitUntil(lib.Live, func() bool {
			a, n := counterCounts(reg, "ns_sub_subscriber_messages_received_total")
			return a+n >= k
		})
		time.Sleep(3 * time.Millisecond)
		done := make(chan struct{})
		go func() { router.Close(); close(done) }()
		select {
		case <-done:
		case <-time.After(lib.Live):
			lib.Count("router_close_slow", 1)
		}
		a, n := counterCounts(reg, "ns_sub_subscriber_messages_received_total")
		if a != wantAck || n != wantNack {
			t.Fatalf("violation: subscriber_messages_received_total acked=%d nacked=%d, harness saw %d acked / %d nacked (decorators twice=%v, outcomes %v)", a, n, wantAck, wantNack, twice, specs)
		}
		pok, pfail := histCounts(t, reg, "ns_sub_publish_time_seconds")
		if pok != wantPubOK || pfail != wantPubFail {
			t.Fatalf("violation: publish_time_seconds success=true:%d false:%d, harness counted %d successful / %d failed publish calls (decorators twice=%v, outcomes %v)", pok, pfail, wantPubOK, wantPubFail, twice, specs)
		}
		hok, hfail := histCounts(t, reg, "ns_sub_handler_execution_time_seconds")
		if hok+hfail != k {
			t.Fatalf("violation: handler_execution_time_seconds counted %d invocations, handler ran %d times", hok+hfail, k)
		}
		if hfail != wantErr {
			t.Fatalf("violation: handler_execution_time_seconds success=false:%d, %d invocations returned an error", hfail, wantErr)
		}
		nonSuccess := wantNack > 0
		cls := []string{"router-metrics"}
		if twice {
			cls = append(cls, "router-metrics-twice")
		}
		lib.Case(fmt.Sprintf("rm|%v|%v", twice, specs), nonSuccess || twice, cls...)
		lib.Sample(map[string]any{"test": "RouterMetrics", "twice": twice, "outcomes(outcome,outputs)": strings.TrimSpace(fmt.Sprint(specs))})
	})
}

// ---------- the handler metrics middleware counts every INVOCATION, also of the same message object ----------

// Retry (or a broker that hands the same object over again) invokes the handler several times with one message object:
// "every handler invocation is counted exactly once with the correct success label".
func TestHandlerMetricsRepeatedInvocations(t *testing.T) {
	rapid.Check(t, func(t *rapid.T) {
		outcomes := rapid.SliceOfN(rapid.SampledFrom([]string{"error", "error", "success", "panic"}), 1, 5).Draw(t, "attemptOutcomes")
		viaRetry := rapid.Bool().Draw(t, "retryOutsideTheMetricsMiddleware")
		reg := prometheus.NewRegistry()
		b := metrics.NewPrometheusMetricsBuilder(reg, "ns", "sub")
		mw := b.NewRouterMiddleware().Middleware
		attempt := 0
		wantOK, wantFail, panics := 0, 0, 0
		inner := func(m *message.Message) ([]*message.Message, error) {
			o := outcomes[attempt%len(outcomes)]
			attempt++
			switch o {
			case "error":
				wantFail++
				return nil, stderrors.New("attempt failed")
			case "panic":
				panics++ // counted once; which label a panicking invocation gets is not demanded (see DESIGN.md, C20)
				panic("attempt panicked")
			}
			wantOK++
			return nil, nil
		}
		// metrics sits inside a Recoverer (the router recovers panics around the whole chain in real use)
		h := middleware.Recoverer(mw(inner))
		msg := message.NewMessage("m", nil)
		msg.SetContext(context.WithValue(context.Background(), "handler_name", "h"))
		if viaRetry {
			h = middleware.Retry{MaxRetries: len(outcomes) - 1, Multiplier: 1}.Middleware(h)
			h(msg)
		} else {
			// the same message object handed to the handler again and again (redelivery without a copy)
			for range outcomes {
				h(msg)
			}
		}
		hok, hfail := histCounts(t, reg, "ns_sub_handler_execution_time_seconds")
		if hok+hfail != attempt {
			t.Fatalf("violation: handler_execution_time_seconds counted %d invocations, the handler ran %d times with the same message object (outcomes %v, retry=%v)", hok+hfail, attempt, outcomes, viaRetry)
		}
		if hok < wantOK || hok > wantOK+panics || hfail < wantFail {
			t.Fatalf("violation: handler_execution_time_seconds success=true:%d false:%d, the invocations were %d successful / %d failed / %d panicked (outcomes %v, retry=%v)", hok, hfail, wantOK, wantFail, panics, outcomes, viaRetry)
		}
		lib.Case(fmt.Sprintf("repeat|%v|%v", outcomes, viaRetry), attempt >= 2, "handler-metrics-repeated", fmt.Sprintf("invocations=%d", attempt))
		lib.Sample(map[string]any{"test": "HandlerMetricsRepeatedInvocations", "outcomes": fmt.Sprint(outcomes), "via_retry": viaRetry, "invocations": attempt})
	})
}
