// C18 — Request-reply: replies reach only their requester and listeners always finish.
package c18

import (
	"context"
	stderrors "errors"
	"fmt"
	"runtime"
	"strings"
	"sync"
	"testing"
	"time"

	"github.com/ThreeDotsLabs/watermill"
	"github.com/ThreeDotsLabs/watermill/components/cqrs"
	"github.com/ThreeDotsLabs/watermill/components/requestreply"
	"github.com/ThreeDotsLabs/watermill/message"
	"github.com/ThreeDotsLabs/watermill/pubsub/gochannel"
	"github.com/ThreeDotsLabs/watermill/verifharness/lib"
	pkgerrors "github.com/pkg/errors"
	"pgregory.net/rapid"
)

func TestMain(m *testing.M) {
	lib.Extra("rule", "rapid-generated request-reply programs: 1..32 concurrent callers on one shared reply topic (GoChannel), per command a handler script (k failing attempts with an error text, then a result echoing the command id and the attempt), AckCommandErrors on/off, optional ListenForReplyTimeout, "+
		"caller behaviours {drain all replies then cancel, read one then cancel late without reading further, never read then cancel, cancel before the reply, let the timeout fire, SendWithReply}. Commands travel through a scripted subscriber (fresh-copy redelivery after Nack) so that every settlement is observed; the reply publisher is wrapped to sample the command's settlement inside the reply Publish. "+
		"Oracle: every handler reply a caller receives echoes its own command id with the scripted error text; each command delivery is unsettled inside its reply Publish and afterwards acked/nacked as AckCommandErrors says; after cancel/timeout OnListenForReplyFinished ran exactly once per request (checked before the caller drains), the reply channel is closed once drained, no ListenForNotifications goroutine remains. "+
		"Non-trivial: >=2 concurrent requests and >=1 caller that stops reading or cancels late."+
		" Handler errors may be pkg/errors annotations (the whole text travels); a caller may arrive with a context that has ended already (behaviour 8).")
	lib.Extra("assumptions", []string{
		"the terminal Reply{Error: ReplyTimeoutError} emitted on cancel/timeout is not a handler reply (may also be dropped when nobody reads)",
		"a caller has to see at least the replies produced before it stopped reading; no order between replies of different deliveries",
		"10 s liveness bounds",
	})
	lib.Main(m)
}

type Cmd struct{ ID string }
type Res struct {
	CmdID   string
	Attempt int
}

// handlerErr: the error a failing attempt returns. It may wrap a context error (a handler that was interrupted): the
// configured ack policy and the reply text are the same whatever is inside.
func (s callerSpec) handlerErr() error {
	switch s.Wraps {
	case 1:
		return fmt.Errorf("%s: %w", s.Err, context.Canceled)
	case 2:
		return fmt.Errorf("%s: %w", s.Err, context.DeadlineExceeded)
	case 3: // annotated the pkg/errors way: the reply carries the handler's error text, i.e. all of it
		return pkgerrors.Wrap(stderrors.New(s.Err), "cannot ship order")
	case 4:
		return pkgerrors.WithMessage(pkgerrors.Wrapf(stderrors.New(s.Err), "step %d", 2), "outer")
	}
	return stderrors.New(s.Err)
}

type callerSpec struct {
	Wraps int // 0 plain error, 1 wraps context.Canceled, 2 wraps context.DeadlineExceeded, 3-4 pkg/errors annotations around the error
	Behav int // 0 drain, 1 read one then cancel late, 2 never read then cancel, 3 cancel before the reply, 4 timeout (handler held: no reply before it), 5 SendWithReply, 6 timeout while the replies sit unread, 7 drain, but only after every reply has been produced, 8 the caller's context has ended before the call already
	Fails int
	Err   string
}

var behavNames = []string{"drain", "read-one-cancel-late", "never-read", "cancel-before-reply", "timeout", "SendWithReply", "timeout-with-unread-replies", "drain-late", "context-ended-before-the-call"}

type cmdDelivery struct {
	cmdID     string
	attempt   int
	d         *lib.Delivery
	inside    string // settlement of this delivery sampled inside its reply Publish
	replied   bool
	replyEndT int64
}

type world struct {
	mu        sync.Mutex
	deliv     map[string][]*cmdDelivery // by command id
	finished  map[string]int
	attempts  map[string]int
	published map[string]int // reply publishes per command id
	gates     map[string]chan struct{}
}

// replyPub wraps the reply publisher: samples the settlement of the command delivery inside Publish.
type replyPub struct {
	inner message.Publisher
	w     *world
}

func (p *replyPub) Publish(topic string, msgs ...*message.Message) error {
	var cur *cmdDelivery
	if len(msgs) == 1 {
		if id, ok := msgs[0].Context().Value(cmdKey{}).(string); ok {
			p.w.mu.Lock()
			if ds := p.w.deliv[id]; len(ds) > 0 {
				cur = ds[len(ds)-1]
			}
			p.w.mu.Unlock()
		}
	}
	if cur != nil {
		a, n := cur.d.State()
		cur.inside = fmt.Sprintf("acked=%v nacked=%v", a, n)
	}
	err := p.inner.Publish(topic, msgs...)
	if cur != nil && err == nil {
		p.w.mu.Lock()
		cur.replied = true
		cur.replyEndT = lib.Tick()
		p.w.published[cur.cmdID]++
		p.w.mu.Unlock()
	}
	return err
}
func (p *replyPub) Close() error { return nil }

type cmdKey struct{}

func listenerGoroutines() int {
	buf := make([]byte, 8<<20)
	buf = buf[:runtime.Stack(buf, true)]
	n := 0
	for _, g := range strings.Split(string(buf), "\n\n") {
		if strings.Contains(g, "ListenForNotifications") {
			n++
		}
	}
	return n
}

func TestRequestReply(t *testing.T) {
	rapid.Check(t, func(t *rapid.T) {
		if rapid.IntRange(0, 2).Draw(t, "handlerWithoutResult") == 0 {
			rrCase[struct{}](t, false)
		} else {
			rrCase[Res](t, true)
		}
	})
}

func rrCase[R any](t *rapid.T, withResult bool) {
	{
		nCallers := rapid.IntRange(1, 32).Draw(t, "callers")
		ackErrs := rapid.Bool().Draw(t, "ackCommandErrors")
		var timeout *time.Duration
		if rapid.IntRange(0, 2).Draw(t, "listenTimeout") == 0 {
			// incl. the boundary values: a zero or negative timeout has already passed
			d := time.Duration(rapid.SampledFrom([]int{0, -1, 20, 35, 60, 3600000}).Draw(t, "timeoutMs")) * time.Millisecond
			timeout = &d
		}
		// a timeout that is far away is no timeout for the callers' purposes: they cancel, and the listener ends THEN
		farTimeout := timeout != nil && *timeout >= time.Hour
		// the hook is optional (nil is the default): the listener has to clean up all the same
		noHook := rapid.IntRange(0, 3).Draw(t, "withoutOnListenForReplyFinished") == 0
		// replies of OTHER kinds of requests on the shared reply topic: their results need not decode into this caller's type
		foreign := rapid.SliceOfN(rapid.SampledFrom([]string{`12345`, `"text"`, `[1,2]`, `{"CmdID":7,"Attempt":"x"}`, `not json`, ``, `{"CmdID":"someone else","Attempt":1}`, `{}`}), 0, 6).Draw(t, "foreignNotifications")
		// sustained foreign traffic: other requests keep being answered on the shared topic for longer than the timeout;
		// the timeout of THIS request runs from its start all the same
		sustained := timeout != nil && *timeout > 0 && *timeout < time.Hour && !noHook && rapid.IntRange(0, 7).Draw(t, "sustainedForeignTraffic") == 0
		specs := make([]callerSpec, nCallers)
		for i := range specs {
			b := rapid.SampledFrom([]int{0, 0, 1, 1, 2, 2, 3, 5, 7, 7, 8}).Draw(t, "behaviour")
			if timeout != nil && !farTimeout {
				b = rapid.SampledFrom([]int{4, 4, 3, 0, 6, 6, 8}).Draw(t, "behaviourWithTimeout")
				if b == 0 {
					b = 5
				}
			}
			specs[i] = callerSpec{Behav: b, Fails: rapid.IntRange(0, 2).Draw(t, "failingAttempts"),
				Err:   rapid.SampledFrom([]string{"boom", "", "é\nx", "other error", "disk is 100% full %s"}).Draw(t, "errText"),
				Wraps: rapid.SampledFrom([]int{0, 0, 1, 2, 3, 4}).Draw(t, "errWraps")}
		}
		w := &world{deliv: map[string][]*cmdDelivery{}, finished: map[string]int{}, attempts: map[string]int{}, published: map[string]int{}, gates: map[string]chan struct{}{}}
		gc := gochannel.NewGoChannel(gochannel.Config{}, watermill.NopLogger{})
		logger := watermill.NopLogger{}
		backend, err := requestreply.NewPubSubBackend[R](requestreply.PubSubBackendConfig{
			Publisher:              &replyPub{inner: gc, w: w},
			SubscriberConstructor:  func(requestreply.PubSubBackendSubscribeParams) (message.Subscriber, error) { return gc, nil },
			GenerateSubscribeTopic: func(requestreply.PubSubBackendSubscribeParams) (string, error) { return "reply", nil },
			GeneratePublishTopic:   func(requestreply.PubSubBackendPublishParams) (string, error) { return "reply", nil },
			Logger:                 logger,
			AckCommandErrors:       ackErrs,
			ListenForReplyTimeout:  timeout,
			ModifyNotificationMessage: func(msg *message.Message, p requestreply.PubSubBackendOnCommandProcessedParams) error {
				// lets the reply publisher wrapper find the command delivery this reply belongs to
				id := p.Command.(*Cmd).ID
				msg.SetContext(context.WithValue(msg.Context(), cmdKey{}, id))
				// the reply names the command and the attempt it was produced for
				w.mu.Lock()
				msg.Metadata.Set("cmd", id)
				msg.Metadata.Set("attempt", fmt.Sprint(w.attempts[id]))
				w.mu.Unlock()
				return nil
			},
			OnListenForReplyFinished: map[bool]func(ctx context.Context, p requestreply.PubSubBackendSubscribeParams){false: func(ctx context.Context, p requestreply.PubSubBackendSubscribeParams) {
				w.mu.Lock()
				w.finished[p.Command.(*Cmd).ID]++
				w.mu.Unlock()
			}}[noHook],
		}, requestreply.BackendPubsubJSONMarshaler[R]{})
		if err != nil {
			t.Fatalf("NewPubSubBackend: %v", err)
		}
		cmdPub := lib.NewScriptPub("")
		cmdSub := lib.NewScriptSub("")
		router, err := message.NewRouter(message.RouterConfig{CloseTimeout: 5 * time.Second}, logger)
		if err != nil {
			t.Fatalf("NewRouter: %v", err)
		}
		bus, err := cqrs.NewCommandBusWithConfig(cmdPub, cqrs.CommandBusConfig{
			GeneratePublishTopic: func(cqrs.CommandBusGeneratePublishTopicParams) (string, error) { return "commands", nil },
			Marshaler:            cqrs.JSONMarshaler{},
		})
		if err != nil {
			t.Fatalf("NewCommandBusWithConfig: %v", err)
		}
		proc, err := cqrs.NewCommandProcessorWithConfig(router, cqrs.CommandProcessorConfig{
			GenerateSubscribeTopic: func(cqrs.CommandProcessorGenerateSubscribeTopicParams) (string, error) { return "commands", nil },
			SubscriberConstructor:  func(cqrs.CommandProcessorSubscriberConstructorParams) (message.Subscriber, error) { return cmdSub, nil },
			Marshaler:              cqrs.JSONMarshaler{},
		})
		if err != nil {
			t.Fatalf("NewCommandProcessorWithConfig: %v", err)
		}
		specOf := func(id string) callerSpec {
			var i int
			fmt.Sscanf(id, "cmd%d", &i)
			return specs[i]
		}
		for i, s := range specs {
			if s.Behav == 3 || s.Behav == 4 {
				w.gates[fmt.Sprintf("cmd%d", i)] = make(chan struct{})
			}
		}
		handle := func(ctx context.Context, c *Cmd) (int, error) {
			w.mu.Lock()
			w.attempts[c.ID]++
			n := w.attempts[c.ID]
			gate := w.gates[c.ID]
			w.mu.Unlock()
			if gate != nil {
				select {
				case <-gate:
				case <-time.After(3 * time.Second):
				}
			}
			s := specOf(c.ID)
			if n <= s.Fails {
				return n, s.handlerErr()
			}
			return n, nil
		}
		var ch cqrs.CommandHandler
		if withResult {
			ch = requestreply.NewCommandHandlerWithResult[Cmd, Res]("handler", any(backend).(requestreply.Backend[Res]), func(ctx context.Context, c *Cmd) (Res, error) {
				n, err := handle(ctx, c)
				return Res{CmdID: c.ID, Attempt: n}, err
			})
		} else {
			ch = requestreply.NewCommandHandler[Cmd]("handler", any(backend).(requestreply.Backend[struct{}]), func(ctx context.Context, c *Cmd) error {
				_, err := handle(ctx, c)
				return err
			})
		}
		err = proc.AddHandlers(ch)
		if err != nil {
			t.Fatalf("AddHandlers: %v", err)
		}
		go router.Run(context.Background())
		select {
		case <-router.Running():
		case <-time.After(lib.Live):
			t.Fatalf("harness: router did not start")
		}
		cmdSubscription := cmdSub.Subs()[0]
		// relay: command bus -> scripted subscriber, with fresh-copy redelivery after a Nack
		var relayWG sync.WaitGroup
		cmdPub.OnPublish = func(pc *lib.PubCall) error {
			snap := pc.Snaps[0]
			relayWG.Add(1)
			go func() {
				defer relayWG.Done()
				var c Cmd
				cqrs.JSONMarshaler{}.Unmarshal(snap.Msg(), &c)
				for attempt := 1; attempt <= 6; attempt++ {
					m := snap.Msg()
					cd := &cmdDelivery{cmdID: c.ID, attempt: attempt, d: &lib.Delivery{Msg: m}}
					w.mu.Lock()
					w.deliv[c.ID] = append(w.deliv[c.ID], cd)
					w.mu.Unlock()
					if _, ok := cmdSubscription.Emit(m, c.ID, attempt, lib.Live); !ok {
						return
					}
					acked, settled := cd.d.Wait(2 * lib.Live)
					if !settled || acked {
						return
					}
				}
			}()
			return nil
		}

		expectedReplies := func(s callerSpec) int {
			if ackErrs {
				return 1
			}
			return s.Fails + 1
		}
		var vmu sync.Mutex
		seenAttempts := map[string][]int{}
		var viol []string
		bad := func(f string, a ...any) { vmu.Lock(); viol = append(viol, fmt.Sprintf(f, a...)); vmu.Unlock() }
		checkReply := func(id string, r requestreply.Reply[R], s callerSpec) (terminal bool) {
			var te requestreply.ReplyTimeoutError
			if stderrors.As(r.Error, &te) {
				return true
			}
			if r.NotificationMessage == nil {
				bad("reply content: caller of %s received a handler reply without its notification message (error %v)", id, r.Error)
				return false
			}
			forCmd := r.NotificationMessage.Metadata.Get("cmd")
			attempt := 0
			fmt.Sscanf(r.NotificationMessage.Metadata.Get("attempt"), "%d", &attempt)
			if forCmd != id {
				bad("foreign reply: caller of %s received a reply produced for %q (attempt %d)", id, forCmd, attempt)
				return false
			}
			if res, ok := any(r.HandlerResult).(Res); ok && (res.CmdID != id || res.Attempt != attempt) {
				bad("reply content: caller of %s received result %+v in the reply of attempt %d", id, res, attempt)
			}
			vmu.Lock()
			seenAttempts[id] = append(seenAttempts[id], attempt)
			vmu.Unlock()
			wantErr := attempt <= s.Fails
			if wantErr != (r.Error != nil) {
				bad("reply content: %s attempt %d: error=%v, script says error=%v", id, attempt, r.Error, wantErr)
			} else if wantErr && r.Error.Error() != s.handlerErr().Error() {
				bad("reply content: %s attempt %d: error text %q, handler returned %q", id, attempt, r.Error.Error(), s.handlerErr().Error())
			}
			return false
		}
		finishedSoonAfterTimeout := func(id string) bool {
			if !sustained {
				return true
			}
			return lib.WaitUntil(2*time.Second, func() bool { w.mu.Lock(); defer w.mu.Unlock(); return w.finished[id] >= 1 })
		}
		finishedOnce := func(id string) bool {
			if noHook {
				return true
			}
			return lib.WaitUntil(lib.Live, func() bool { w.mu.Lock(); defer w.mu.Unlock(); return w.finished[id] >= 1 })
		}
		drainUntilClosed := func(id string, ch <-chan requestreply.Reply[R], s callerSpec) (n int, closed bool) {
			deadline := time.After(lib.Live)
			for {
				select {
				case r, ok := <-ch:
					if !ok {
						return n, true
					}
					if !checkReply(id, r, s) {
						n++
					}
				case <-deadline:
					return n, false
				}
			}
		}
		foreignDone := make(chan struct{})
		go func() {
			defer close(foreignDone)
			for k, payload := range foreign {
				time.Sleep(time.Duration(k%3) * 300 * time.Microsecond)
				m := message.NewMessage(fmt.Sprintf("foreign-%d", k), []byte(payload))
				m.Metadata[requestreply.OperationIDMetadataKey] = fmt.Sprintf("foreign-operation-%d", k)
				switch k % 3 {
				case 1:
					// other systems reply on the shared topic too: a notification that names no operation is nobody's
					delete(m.Metadata, requestreply.OperationIDMetadataKey)
				case 2:
					m.Metadata[requestreply.OperationIDMetadataKey] = ""
				}
				m.Metadata[requestreply.HasErrorMetadataKey] = "0"
				m.Metadata["cmd"] = "a foreign request"
				gc.Publish("reply", m)
			}
			if sustained {
				stop := time.After(*timeout + 2500*time.Millisecond)
				for k := 0; ; k++ {
					select {
					case <-stop:
						return
					case <-time.After(4 * time.Millisecond):
					}
					m := message.NewMessage(fmt.Sprintf("foreign-sustained-%d", k), []byte(`{"CmdID":"someone else","Attempt":1}`))
					m.Metadata[requestreply.OperationIDMetadataKey] = fmt.Sprintf("foreign-sustained-operation-%d", k)
					m.Metadata[requestreply.HasErrorMetadataKey] = "0"
					m.Metadata["cmd"] = "a foreign request"
					gc.Publish("reply", m)
				}
			}
		}()
		var wg sync.WaitGroup
		for i, s := range specs {
			wg.Add(1)
			go func(i int, s callerSpec) {
				defer wg.Done()
				id := fmt.Sprintf("cmd%d", i)
				want := expectedReplies(s)
				if s.Behav == 5 {
					ctx, cancel := context.WithTimeout(context.Background(), lib.Live)
					defer cancel()
					r, err := requestreply.SendWithReply[R](ctx, bus, backend, &Cmd{ID: id})
					if err != nil {
						bad("SendWithReply for %s failed: %v", id, err)
						return
					}
					checkReply(id, r, s)
					if !finishedOnce(id) {
						bad("listener: OnListenForReplyFinished never ran for %s after SendWithReply returned", id)
					}
					return
				}
				// the caller's context may carry a (much later) deadline of its own: the configured timeout applies all the same
				callerCtx := context.Background()
				if i%2 == 1 {
					var cancelFar context.CancelFunc
					callerCtx, cancelFar = context.WithTimeout(context.Background(), time.Hour)
					defer cancelFar()
				}
				if s.Behav == 8 {
					// a caller that arrives with a context that is over already (cancelled, or its deadline passed): whatever
					// was started for the request is finished again - channel closed, hook run once - as for any ended context
					var cancelEnded context.CancelFunc
					if i%2 == 0 {
						callerCtx, cancelEnded = context.WithCancel(callerCtx)
						cancelEnded()
					} else {
						callerCtx, cancelEnded = context.WithDeadline(callerCtx, time.Now().Add(-time.Second))
						defer cancelEnded()
					}
				}
				ch, cancel, err := requestreply.SendWithReplies[R](callerCtx, bus, backend, &Cmd{ID: id})
				if err != nil {
					bad("SendWithReplies for %s failed: %v", id, err)
					return
				}
				defer cancel()
				got := 0
				readOne := func() bool {
					select {
					case r, ok := <-ch:
						if !ok {
							bad("listener: reply channel of %s closed before cancel/timeout after %d of %d replies", id, got, want)
							return false
						}
						if !checkReply(id, r, s) {
							got++
						}
						return true
					case <-time.After(lib.Live):
						bad("replies: caller of %s received %d of %d handler replies within %v", id, got, want, lib.Live)
						return false
					}
				}
				switch s.Behav {
				case 7:
					// a caller that is busy elsewhere first: every reply of its command has been published before it starts
					// to read, and it still gets them all
					lib.WaitUntil(lib.Live, func() bool { w.mu.Lock(); defer w.mu.Unlock(); return w.published[id] >= want })
					time.Sleep(2 * time.Millisecond)
					for got < want {
						if !readOne() {
							return
						}
					}
					cancel()
				case 0:
					for got < want {
						if !readOne() {
							return
						}
					}
					cancel()
				case 1:
					if !readOne() {
						return
					}
					time.Sleep(3 * time.Millisecond)
					cancel()
					time.Sleep(5 * time.Millisecond)
					if !finishedOnce(id) {
						bad("listener: OnListenForReplyFinished never ran for %s (caller read one reply, cancelled later and stopped reading; %d replies were produced)", id, want)
					}
				case 2:
					lib.WaitUntil(lib.Live, func() bool { w.mu.Lock(); defer w.mu.Unlock(); return w.published[id] >= want })
					time.Sleep(2 * time.Millisecond)
					cancel()
					if !finishedOnce(id) {
						bad("listener: OnListenForReplyFinished never ran for %s (caller never read and cancelled; %d replies were produced)", id, want)
					}
				case 3:
					cancel()
				case 6:
					// the handler answers at once (several replies after Nacks), nobody reads them, then the timeout passes
					if *timeout > 0 {
						time.Sleep(*timeout)
					}
					time.Sleep(5 * time.Millisecond)
					if !finishedSoonAfterTimeout(id) {
						bad("listener: the listener of %s is still running 2s after its %v timeout passed while only replies of OTHER requests kept arriving on the shared topic", id, *timeout)
					}
					if !finishedOnce(id) {
						bad("listener: OnListenForReplyFinished never ran for %s after the timeout passed (caller not reading; up to %d replies were produced meanwhile)", id, want)
					}
				case 4:
					// wait for the configured timeout WITHOUT reading: replies that arrived meanwhile sit unread, the
					// listener has to terminate all the same (draining below would free a listener stuck on the channel)
					if *timeout > 0 {
						time.Sleep(*timeout)
					}
					time.Sleep(5 * time.Millisecond)
					if !finishedSoonAfterTimeout(id) {
						bad("listener: the listener of %s is still running 2s after its %v timeout passed while only replies of OTHER requests kept arriving on the shared topic", id, *timeout)
					}
					if !finishedOnce(id) {
						bad("listener: OnListenForReplyFinished never ran for %s after the timeout passed (caller not reading; %d replies were produced)", id, want)
					}
				}
				n, closed := drainUntilClosed(id, ch, s)
				got += n
				if !closed {
					bad("listener: reply channel of %s not closed within %v after cancel/timeout (behaviour %s)", id, lib.Live, behavNames[s.Behav])
				}
				if !finishedOnce(id) {
					bad("listener: OnListenForReplyFinished never ran for %s (behaviour %s)", id, behavNames[s.Behav])
				}
				if (s.Behav == 0 || s.Behav == 7) && got != want {
					bad("replies: caller of %s drained %d handler replies, script produces %d", id, got, want)
				}
			}(i, s)
		}
		callersDone := make(chan struct{})
		go func() { wg.Wait(); <-foreignDone; close(callersDone) }()
		select {
		case <-callersDone:
		case <-time.After(6 * lib.Live):
			bad("liveness: callers did not finish")
		}
		// release gated handlers, let the relays finish, shut down
		w.mu.Lock()
		for _, g := range w.gates {
			close(g)
		}
		w.mu.Unlock()
		relayDone := make(chan struct{})
		go func() { relayWG.Wait(); close(relayDone) }()
		select {
		case <-relayDone:
		case <-time.After(3 * lib.Live):
			bad("liveness: command deliveries not settled")
		}
		closed := make(chan struct{})
		go func() { router.Close(); gc.Close(); close(closed) }()
		select {
		case <-closed:
		case <-time.After(2 * lib.Live):
			bad("liveness: shutdown did not finish")
		}
		// command settlement
		w.mu.Lock()
		for id, ds := range w.deliv {
			s := specOf(id)
			for _, cd := range ds {
				a, n := cd.d.State()
				if !cd.d.Received {
					// never handed to the router (shutdown)
				}
				if !a && !n {
					continue
				}
				if !cd.replied {
					bad("settlement: command %s attempt %d was settled (acked=%v) although no reply was published for it", id, cd.attempt, a)
					continue
				}
				if cd.inside != "acked=false nacked=false" {
					bad("settlement: command %s attempt %d was already settled (%s) while its reply was being published", id, cd.attempt, cd.inside)
				}
				wantAck := ackErrs || cd.attempt > s.Fails
				if a != wantAck {
					bad("settlement: command %s attempt %d (handler error=%v, AckCommandErrors=%v): acked=%v", id, cd.attempt, cd.attempt <= s.Fails, ackErrs, a)
				}
			}
		}
		for id, as := range seenAttempts {
			seen := map[int]bool{}
			for _, a := range as {
				if seen[a] {
					bad("replies: caller of %s received the reply of attempt %d more than once (%v)", id, a, as)
				}
				seen[a] = true
			}
		}
		for i, s := range specs {
			id := fmt.Sprintf("cmd%d", i)
			want := 1
			if !ackErrs {
				want = s.Fails + 1
			}
			if got := w.attempts[id]; got > want {
				bad("settlement: handler executed %d times for %s, script (fails=%d, AckCommandErrors=%v) allows %d", got, id, s.Fails, ackErrs, want)
			}
		}
		for id, n := range w.finished {
			if n != 1 {
				bad("listener: OnListenForReplyFinished ran %d times for %s", n, id)
			}
		}
		if len(w.finished) != nCallers && !noHook {
			bad("listener: OnListenForReplyFinished ran for %d of %d requests", len(w.finished), nCallers)
		}
		w.mu.Unlock()
		if !lib.WaitUntil(lib.Live, func() bool { return listenerGoroutines() == 0 }) {
			bad("listener: %d goroutines with a ListenForNotifications frame remain", listenerGoroutines())
		}
		if len(viol) > 0 {
			path := lib.WriteReplay("TestRequestReply", "C18", map[string]any{"property": "C18", "callers": specs, "ackCommandErrors": ackErrs, "violations": viol})
			max := viol
			if len(max) > 8 {
				max = max[:8]
			}
			t.Fatalf("violation of C18 (%d):\n  %s\ncallers: %+v ackCommandErrors=%v timeout=%v\nreplay: %s", len(viol), strings.Join(max, "\n  "), specs, ackErrs, timeout, path)
		}
		stops := 0
		for _, s := range specs {
			if s.Behav == 1 || s.Behav == 2 {
				stops++
			}
		}
		lib.Case(fmt.Sprintf("%v|%v|%v|%v", specs, ackErrs, timeout != nil, withResult), nCallers >= 2 && stops >= 1, fmt.Sprintf("ackErrs=%v", ackErrs), fmt.Sprintf("timeout=%v", timeout != nil), fmt.Sprintf("withResult=%v", withResult))
		if nCallers >= 2 && stops >= 1 {
			lib.Sample(map[string]any{"test": "RequestReply", "callers": fmt.Sprintf("%+v", specs), "ack_command_errors": ackErrs, "timeout": timeout != nil})
		}
	}
}

// ---------- reply publish failures and ReplyPublishErrorHandler ----------

type failingPub struct {
	inner message.Publisher
	mu    sync.Mutex
	calls int
	fail  map[int]bool
	cur   func() *lib.Delivery
	log   []string
}

func (p *failingPub) Publish(topic string, msgs ...*message.Message) error {
	p.mu.Lock()
	p.calls++
	n := p.calls
	st := ""
	if d := p.cur(); d != nil {
		a, nk := d.State()
		st = fmt.Sprintf("acked=%v nacked=%v", a, nk)
	}
	p.log = append(p.log, st)
	f := p.fail[n]
	p.mu.Unlock()
	if f {
		return stderrors.New("reply transport down")
	}
	return p.inner.Publish(topic, msgs...)
}
func (p *failingPub) Close() error { return nil }

func TestReplyPublishFailure(t *testing.T) {
	rapid.Check(t, func(t *rapid.T) {
		ackErrs := rapid.Bool().Draw(t, "ackCommandErrors")
		mode := rapid.SampledFrom([]string{"none", "swallow", "pass"}).Draw(t, "replyPublishErrorHandler")
		fails := rapid.IntRange(0, 2).Draw(t, "failingAttempts")
		failOn := map[int]bool{}
		for i := 1; i <= 4; i++ {
			if rapid.IntRange(0, 2).Draw(t, "replyPublishFails") == 0 {
				failOn[i] = true
			}
		}
		gc := gochannel.NewGoChannel(gochannel.Config{}, watermill.NopLogger{})
		defer gc.Close()
		var dmu sync.Mutex
		var deliveries []*lib.Delivery
		fp := &failingPub{inner: gc, fail: failOn, cur: func() *lib.Delivery {
			dmu.Lock()
			defer dmu.Unlock()
			if len(deliveries) == 0 {
				return nil
			}
			return deliveries[len(deliveries)-1]
		}}
		cfg := requestreply.PubSubBackendConfig{
			Publisher:              fp,
			SubscriberConstructor:  func(requestreply.PubSubBackendSubscribeParams) (message.Subscriber, error) { return gc, nil },
			GenerateSubscribeTopic: func(requestreply.PubSubBackendSubscribeParams) (string, error) { return "reply", nil },
			GeneratePublishTopic:   func(requestreply.PubSubBackendPublishParams) (string, error) { return "reply", nil },
			AckCommandErrors:       ackErrs,
		}
		switch mode {
		case "swallow":
			cfg.ReplyPublishErrorHandler = func(string, *message.Message, error) error { return nil }
		case "pass":
			cfg.ReplyPublishErrorHandler = func(_ string, _ *message.Message, err error) error { return err }
		}
		backend, err := requestreply.NewPubSubBackend[Res](cfg, requestreply.BackendPubsubJSONMarshaler[Res]{})
		if err != nil {
			t.Fatalf("NewPubSubBackend: %v", err)
		}
		cmdPub := lib.NewScriptPub("")
		cmdSub := lib.NewScriptSub("")
		router, _ := message.NewRouter(message.RouterConfig{CloseTimeout: 5 * time.Second}, watermill.NopLogger{})
		bus, _ := cqrs.NewCommandBusWithConfig(cmdPub, cqrs.CommandBusConfig{
			GeneratePublishTopic: func(cqrs.CommandBusGeneratePublishTopicParams) (string, error) { return "commands", nil }, Marshaler: cqrs.JSONMarshaler{}})
		proc, _ := cqrs.NewCommandProcessorWithConfig(router, cqrs.CommandProcessorConfig{
			GenerateSubscribeTopic: func(cqrs.CommandProcessorGenerateSubscribeTopicParams) (string, error) { return "commands", nil },
			SubscriberConstructor:  func(cqrs.CommandProcessorSubscriberConstructorParams) (message.Subscriber, error) { return cmdSub, nil },
			Marshaler:              cqrs.JSONMarshaler{}})
		attempts := 0
		proc.AddHandlers(requestreply.NewCommandHandlerWithResult[Cmd, Res]("handler", backend, func(ctx context.Context, c *Cmd) (Res, error) {
			attempts++
			if attempts <= fails {
				return Res{CmdID: c.ID, Attempt: attempts}, stderrors.New("handler failed")
			}
			return Res{CmdID: c.ID, Attempt: attempts}, nil
		}))
		go router.Run(context.Background())
		select {
		case <-router.Running():
		case <-time.After(lib.Live):
			t.Fatalf("harness: router did not start")
		}
		defer func() {
			done := make(chan struct{})
			go func() { router.Close(); close(done) }()
			select {
			case <-done:
			case <-time.After(lib.Live):
			}
		}()
		ch, cancel, err := requestreply.SendWithReplies[Res](context.Background(), bus, backend, &Cmd{ID: "c"})
		if err != nil {
			t.Fatalf("SendWithReplies: %v", err)
		}
		defer cancel()
		snap := cmdPub.Calls()[0].Snaps[0]
		sub := cmdSub.Subs()[0]
		var got []int
		// deliver the command (fresh copy after every Nack) and check each settlement against the model
		for a := 1; a <= 4; a++ {
			m := snap.Msg()
			d := &lib.Delivery{Msg: m}
			dmu.Lock()
			deliveries = append(deliveries, d)
			dmu.Unlock()
			if _, ok := sub.Emit(m, "c", a, lib.Live); !ok {
				t.Fatalf("harness: command not taken")
			}
			acked, settled := d.Wait(2 * lib.Live)
			if !settled {
				t.Fatalf("violation: command delivery %d never settled", a)
			}
			handlerErr := a <= fails
			pubFailed := failOn[a]
			var wantAck bool
			switch {
			case pubFailed && mode != "swallow":
				wantAck = false // the reply could not be published: the command must be redelivered
			default:
				wantAck = ackErrs || !handlerErr
			}
			if acked != wantAck {
				t.Fatalf("violation: command delivery %d (handler error=%v, reply publish failed=%v, ReplyPublishErrorHandler=%s, AckCommandErrors=%v): acked=%v, expected %v",
					a, handlerErr, pubFailed, mode, ackErrs, acked, wantAck)
			}
			fp.mu.Lock()
			inside := fp.log[len(fp.log)-1]
			fp.mu.Unlock()
			if inside != "acked=false nacked=false" {
				t.Fatalf("violation: command delivery %d already settled (%s) inside the reply Publish", a, inside)
			}
			if !pubFailed {
				// the reply of this delivery reaches the caller
				select {
				case r := <-ch:
					var te requestreply.ReplyTimeoutError
					if stderrors.As(r.Error, &te) || r.HandlerResult.CmdID != "c" || r.HandlerResult.Attempt != a || (r.Error != nil) != handlerErr {
						t.Fatalf("violation: reply of delivery %d: %+v error=%v, expected attempt %d with error=%v", a, r.HandlerResult, r.Error, a, handlerErr)
					}
					got = append(got, a)
				case <-time.After(lib.Live):
					t.Fatalf("violation: the reply of delivery %d was published but never reached the caller", a)
				}
			}
			if acked {
				break
			}
		}
		cancel()
		lib.Case(fmt.Sprintf("replyfail|%v|%s|%d|%v", ackErrs, mode, fails, failOn), len(failOn) > 0, "reply-publish-failure", "handler:"+mode)
		lib.Sample(map[string]any{"test": "ReplyPublishFailure", "ack_command_errors": ackErrs, "error_handler": mode, "handler_fails": fails, "reply_publish_fails_on": fmt.Sprint(failOn), "replies": got})
	})
}
