// C07 — GoChannel Close and subscription cancel always terminate safely.
package c07

import (
	"context"
	"fmt"
	"hash/fnv"
	"os"
	"runtime"
	"strings"
	"sync"
	"sync/atomic"
	"testing"
	"time"

	"github.com/ThreeDotsLabs/watermill"
	"github.com/ThreeDotsLabs/watermill/message"
	"github.com/ThreeDotsLabs/watermill/pubsub/gochannel"
	"github.com/ThreeDotsLabs/watermill/verifharness/gcprog"
	"github.com/ThreeDotsLabs/watermill/verifharness/lib"
	"pgregory.net/rapid"
)

func TestMain(m *testing.M) {
	lib.Extra("rule", "(a) pairwise table, enumerated: config (buffer {0,2} x persistent x blocking) x decorator depth {bare, 1, 2 MessageTransform subscriber decorators} x operation A parked at one of its hook points "+
		"(Publish: after_closed_check, locked, persisted; Subscribe: locked, replay, registered; send loop: locked, before_chan, wait_settle; teardown: sub.close.before_lock, unsubscribe.before_remove) "+
		"x operation B in {Close, cancel the subscription context, two concurrent Closes, Publish, Subscribe} x state of the subscription's consumer {reading, not reading, holding an unsettled message, nacking}; "+
		"(b) random concurrent programs of the C04 generator behind 0..2 decorators with a Close arriving after a generated number of Publish calls. "+
		"Oracle: every call returns within the bound, no panic, after Close every output channel is closed and Publish/Subscribe return an error, no goroutine with gochannel / decorator frames remains, a cancelled subscription's channel closes and the other subscription still receives a probe; race detector on. "+
		"Non-trivial: A was actually parked at its point when B was invoked (table) / Close landed while publishes were still outstanding (random)."+
		" Consumer kinds of the table: reading, notreading, holding, nacking, nackonce (nacks its first message and never reads the re-delivery).")
	lib.Extra("assumptions", []string{
		"Close means Close() on the outermost decorator; in-flight messages at the moment of Close/cancel may be delivered or dropped",
		"a hook point that is not reached within 50 ms (e.g. the send loop of a subscription that holds an unsettled message) makes the case run unforced; it is counted, never reported",
		"10 s liveness bound per call; a panic in a watermill goroutine crashes the process and is attributed by the driver from the journal of the running case",
	})
	lib.Main(m)
}

type cfgT struct {
	Buffer     int
	Persistent bool
	Blocking   bool
}

type caseT struct {
	Cfg      cfgT
	Depth    int
	A        string // hook point at which operation A parks
	B        string // close | cancel | close2 | publish | subscribe
	Consumer string // reading | notreading | holding | nacking | nackonce (nacks the first message, then never reads again: the re-delivery stays unread)
}

func (c caseT) id() string {
	return fmt.Sprintf("buf%d,pers=%v,block=%v,depth=%d,A=%s,B=%s,consumer=%s", c.Cfg.Buffer, c.Cfg.Persistent, c.Cfg.Blocking, c.Depth, c.A, c.B, c.Consumer)
}

var pointsA = []string{
	"gochannel.publish.after_closed_check", "gochannel.publish.locked", "gochannel.publish.persisted",
	"gochannel.subscribe.locked", "gochannel.subscribe.replay", "gochannel.subscribe.registered",
	"gochannel.send.locked", "gochannel.send.before_chan", "gochannel.send.wait_settle",
	"gochannel.sub.close.before_lock", "gochannel.unsubscribe.before_remove",
	"decorator.sub.before_out",
}

func allCases() []caseT {
	var out []caseT
	for _, buf := range []int{0, 2} {
		for _, pers := range []bool{false, true} {
			for _, block := range []bool{false, true} {
				for depth := 0; depth <= 2; depth++ {
					for _, a := range pointsA {
						if !pers && (a == "gochannel.publish.persisted" || a == "gochannel.subscribe.replay" || a == "gochannel.subscribe.registered") {
							continue
						}
						if depth == 0 && a == "decorator.sub.before_out" {
							continue
						}
						for _, b := range []string{"close", "cancel", "close2", "publish", "subscribe", "subscribe-done-ctx"} {
							for _, cons := range []string{"reading", "notreading", "holding", "nacking", "nackonce"} {
								out = append(out, caseT{cfgT{buf, pers, block}, depth, a, b, cons})
							}
						}
					}
				}
			}
		}
	}
	return out
}

type callRes struct {
	name string
	done chan struct{}
	err  error
	pnc  any
}

func call(name string, f func() error) *callRes {
	r := &callRes{name: name, done: make(chan struct{})}
	go func() {
		defer close(r.done)
		defer func() {
			if p := recover(); p != nil {
				r.pnc = p
			}
		}()
		r.err = f()
	}()
	return r
}

func (r *callRes) wait(d time.Duration) bool {
	select {
	case <-r.done:
		return true
	case <-time.After(d):
		return false
	}
}

// pumpGoroutines counts the forwarding goroutines of MessageTransformSubscriberDecorator subscriptions.
func pumpGoroutines() (int, string) {
	buf := make([]byte, 4<<20)
	buf = buf[:runtime.Stack(buf, true)]
	n := 0
	var sample string
	for _, g := range strings.Split(string(buf), "\n\n") {
		if strings.Contains(g, "messageTransformSubscriberDecorator).Subscribe.func") {
			n++
			if sample == "" {
				sample = g
			}
		}
	}
	return n, sample
}

func gochannelGoroutines() (int, string) {
	buf := make([]byte, 4<<20)
	buf = buf[:runtime.Stack(buf, true)]
	n := 0
	var sample string
	for _, g := range strings.Split(string(buf), "\n\n") {
		if (strings.Contains(g, "pubsub/gochannel.") || strings.Contains(g, "messageTransformSubscriberDecorator")) && !strings.Contains(g, "c07.gochannelGoroutines") {
			n++
			if sample == "" {
				sample = g
			}
		}
	}
	return n, sample
}

// runCase executes one table entry; returns violations and whether the park was achieved.
func runCase(c caseT) (viol []string, forced bool) {
	bad := func(f string, a ...any) { viol = append(viol, fmt.Sprintf(f, a...)) }
	g := gochannel.NewGoChannel(gochannel.Config{OutputChannelBuffer: int64(c.Cfg.Buffer), Persistent: c.Cfg.Persistent, BlockPublishUntilSubscriberAck: c.Cfg.Blocking}, watermill.NopLogger{})
	var sub message.Subscriber = g
	// half of the entries apply ONE decorator value several times (what a Router does for its handlers),
	// the other half a fresh decorator value per layer
	sharedDec := message.MessageTransformSubscriberDecorator(func(m *message.Message) {})
	useShared := (len(c.A)+len(c.B)+len(c.Consumer)+c.Cfg.Buffer)%2 == 0
	for i := 0; i < c.Depth; i++ {
		var err error
		dec := sharedDec
		if !useShared {
			dec = message.MessageTransformSubscriberDecorator(func(m *message.Message) {})
		}
		sub, err = dec(sub)
		if err != nil {
			return []string{"harness: decorator: " + err.Error()}, false
		}
	}
	ctl := lib.Install()
	defer ctl.Uninstall()
	ctx1, cancel1 := context.WithCancel(context.WithValue(context.Background(), "sub", 1))
	defer cancel1()
	ctx2, cancel2 := context.WithCancel(context.WithValue(context.Background(), "sub", 2))
	defer cancel2()
	ch1, err := sub.Subscribe(ctx1, "T")
	if err != nil {
		return []string{"harness: subscribe: " + err.Error()}, false
	}
	ch2, err := sub.Subscribe(ctx2, "T")
	if err != nil {
		return []string{"harness: subscribe: " + err.Error()}, false
	}
	var mu sync.Mutex
	got2 := map[string]int{}
	closed2 := make(chan struct{})
	go func() {
		defer close(closed2)
		for m := range ch2 {
			mu.Lock()
			got2[m.UUID]++
			mu.Unlock()
			m.Ack()
		}
	}()
	// consumer of the subject subscription
	closed1 := make(chan struct{})
	stopNack := make(chan struct{})
	holding := make(chan *message.Message, 1)
	consumer1 := func() {
		defer close(closed1)
		switch c.Consumer {
		case "reading":
			for m := range ch1 {
				m.Ack()
			}
		case "nacking":
			for m := range ch1 {
				select {
				case <-stopNack:
					m.Ack()
				default:
					m.Nack()
				}
			}
		case "holding":
			first := true
			for m := range ch1 {
				if first {
					first = false
					holding <- m // never settled
					continue
				}
				m.Ack()
			}
		}
	}
	// nackonce: from its single Nack on this consumer is one that does not read
	notReading := c.Consumer == "notreading" || c.Consumer == "nackonce"
	nackedOnce := make(chan struct{})
	if c.Consumer == "nackonce" {
		go func() {
			if m, ok := <-ch1; ok {
				m.Nack()
			}
			close(nackedOnce)
		}()
	} else if !notReading {
		go consumer1()
	}
	pubN := 0
	publish := func(tag string) func() error {
		pubN++
		id := fmt.Sprintf("%s-%d", tag, pubN)
		return func() error { return g.Publish("T", message.NewMessage(id, []byte(id))) }
	}
	var outstanding []*callRes
	if c.Consumer == "holding" || c.Consumer == "nacking" || c.Consumer == "nackonce" {
		p0 := call("Publish(m0)", publish("m0"))
		outstanding = append(outstanding, p0)
		if c.Consumer == "nackonce" {
			select {
			case <-nackedOnce:
			case <-time.After(lib.Live):
				bad("liveness: first message not delivered")
			}
			time.Sleep(200 * time.Microsecond)
		} else if c.Consumer == "holding" {
			select {
			case <-holding:
			case <-time.After(lib.Live):
				bad("liveness: first message not delivered")
			}
		} else {
			time.Sleep(200 * time.Microsecond)
		}
	}
	// arm the park and start operation A
	var owner any = g
	switch {
	case strings.Contains(c.A, ".send.") || c.A == "gochannel.sub.close.before_lock" || c.A == "decorator.sub.before_out":
		owner = ctx1
	}
	park := ctl.Park(c.A, owner, 0)
	var a *callRes
	var ch3 <-chan *message.Message
	switch {
	case strings.Contains(c.A, ".publish.") || strings.Contains(c.A, ".send.") || c.A == "decorator.sub.before_out":
		a = call("A:Publish", publish("a"))
	case strings.Contains(c.A, ".subscribe."):
		a = call("A:Subscribe", func() error {
			var err error
			ch3, err = sub.Subscribe(context.Background(), "T")
			return err
		})
	default: // teardown of the subject subscription
		a = call("A:cancel", func() error { cancel1(); return nil })
	}
	forced = park.WaitReached(50 * time.Millisecond)
	// operation B
	var bs []*callRes
	var doneCtxSub chan struct{}
	closedByB := false
	switch c.B {
	case "close":
		bs = append(bs, call("B:Close", sub.Close))
		closedByB = true
	case "close2":
		bs = append(bs, call("B:Close#1", sub.Close), call("B:Close#2", sub.Close))
		closedByB = true
	case "cancel":
		bs = append(bs, call("B:cancel", func() error { cancel1(); return nil }))
	case "publish":
		bs = append(bs, call("B:Publish", publish("b")))
	case "subscribe":
		bs = append(bs, call("B:Subscribe", func() error {
			ch, err := sub.Subscribe(context.Background(), "T")
			if err == nil {
				go func() {
					for m := range ch {
						m.Ack()
					}
				}()
			}
			return err
		}))
	case "subscribe-done-ctx":
		// a Subscribe call whose context is already over (a handler that is started while its router shuts down):
		// whether it is refused or accepted, nothing may be left behind - an accepted subscription's channel closes
		bs = append(bs, call("B:Subscribe(done ctx)", func() error {
			dctx, dcancel := context.WithCancel(context.Background())
			dcancel()
			ch, err := sub.Subscribe(dctx, "T")
			if err == nil {
				doneCtxSub = make(chan struct{})
				go func() {
					defer close(doneCtxSub)
					for m := range ch {
						m.Ack()
					}
				}()
			}
			return nil
		}))
	}
	for _, b := range bs {
		b.wait(3 * time.Millisecond)
	}
	// "after Close has returned every output channel is closed": if a Close call already returned while A is
	// still parked, the channels must be closed now (checked before the park is released)
	drainStarted := false
	if closedByB && forced {
		returned := false
		for _, b := range bs {
			select {
			case <-b.done:
				returned = true
			default:
			}
		}
		if returned {
			if notReading {
				drainStarted = true
				go func() {
					defer close(closed1)
					for range ch1 {
					}
				}()
			}
			for name, ch := range map[string]chan struct{}{"subject subscription": closed1, "other subscription": closed2} {
				select {
				case <-ch:
				case <-time.After(300 * time.Millisecond):
					bad("close: a Close call returned (A still parked at %s) but the output channel of the %s is not closed", c.A, name)
				}
			}
		}
	}
	park.Release()
	all := append(append([]*callRes{a}, bs...), outstanding...)
	for _, r := range all {
		r.wait(30 * time.Millisecond)
	}
	if ch3 != nil {
		go func() {
			for m := range ch3 {
				m.Ack()
			}
		}()
	}
	// cancelling one subscription leaves the other working
	cancelled1 := c.B == "cancel" || strings.HasPrefix(a.name, "A:cancel")
	if cancelled1 && !closedByB {
		probe := call("probe Publish", func() error { return g.Publish("T", message.NewMessage("probe", nil)) })
		ok := lib.WaitUntil(lib.Live, func() bool { mu.Lock(); defer mu.Unlock(); return got2["probe"] > 0 })
		if !ok {
			bad("cancel: after cancelling one subscription the other subscription did not receive a probe message within %v", lib.Live)
		}
		all = append(all, probe)
		// the cancelled subscription's channel must close although nobody reads it. A receive would hide a forwarding
		// goroutine that is stuck on the unread channel (the receive itself frees it), so first, without reading: the
		// forwarding goroutines of the cancelled subscription must end. Only where the count is unambiguous: the two
		// subscriptions of this entry are the only ones (A and B are not Subscribe calls).
		if notReading && c.Depth > 0 && c.B != "subscribe" && !strings.Contains(c.A, ".subscribe.") {
			if !lib.WaitUntil(lib.Live, func() bool { n, _ := pumpGoroutines(); return n <= c.Depth }) {
				n, sample := pumpGoroutines()
				bad("cancel: %d decorator forwarding goroutines are alive %v after the unread subscription was cancelled, want %d (those of the other subscription), e.g.\n%s", n, lib.Live, c.Depth, sample)
			}
		}
		if notReading {
			go func() {
				defer close(closed1)
				for m := range ch1 {
					_ = m // unread until now: drain, do not settle
				}
			}()
		}
		select {
		case <-closed1:
		case <-time.After(lib.Live):
			bad("cancel: the output channel of the cancelled subscription (consumer %s) was not closed within %v", c.Consumer, lib.Live)
		}
	}
	if c.B == "subscribe-done-ctx" {
		// (the call may legitimately wait for a blocking Publish that is in flight: then it is judged after the final Close)
		if bs[0].wait(30*time.Millisecond) && doneCtxSub != nil {
			select {
			case <-doneCtxSub:
			case <-time.After(lib.Live):
				bad("cancel: the output channel of a subscription made with an already cancelled context was not closed within %v", lib.Live)
			}
		}
	}
	// final Close
	fin := call("final Close", sub.Close)
	if !fin.wait(lib.Live) {
		bad("liveness: Close did not return within %v (consumer %s, A=%s forced=%v, B=%s)", lib.Live, c.Consumer, c.A, forced, c.B)
		n, sample := gochannelGoroutines()
		bad("goroutines at that moment: %d, e.g.\n%s", n, sample)
		close(stopNack)
		return viol, forced
	}
	close(stopNack)
	for _, r := range all {
		if !r.wait(lib.Live) {
			bad("liveness: %s did not return within %v after Close", r.name, lib.Live)
		}
		if r.pnc != nil {
			bad("panic in %s: %v", r.name, r.pnc)
		}
	}
	if fin.pnc != nil {
		bad("panic in Close: %v", fin.pnc)
	}
	// after Close: channels closed, calls refused, no goroutines
	if notReading && !(cancelled1 && !closedByB) && !drainStarted {
		go func() {
			defer close(closed1)
			for range ch1 {
			}
		}()
	}
	for name, ch := range map[string]chan struct{}{"subject subscription": closed1, "other subscription": closed2} {
		select {
		case <-ch:
		case <-time.After(lib.Live):
			bad("close: output channel of the %s not closed within %v after Close returned", name, lib.Live)
		}
	}
	if c.B == "subscribe-done-ctx" && bs[0].wait(0) && doneCtxSub != nil {
		select {
		case <-doneCtxSub:
		case <-time.After(lib.Live):
			bad("close: the output channel of a subscription made with an already cancelled context is not closed %v after Close returned", lib.Live)
		}
	}
	if err := g.Publish("T", message.NewMessage("late", nil)); err == nil {
		bad("close: Publish after Close returned nil")
	}
	if err := g.Publish("T"); err == nil {
		bad("close: Publish without messages after Close returned nil (decorators make such calls; closed is closed)")
	}
	if _, err := sub.Subscribe(context.Background(), "T"); err == nil {
		bad("close: Subscribe after Close returned nil")
	}
	if !lib.WaitUntil(lib.Live, func() bool { n, _ := gochannelGoroutines(); return n == 0 }) {
		n, sample := gochannelGoroutines()
		bad("close: %d Pub/Sub goroutines remain after Close, e.g.\n%s", n, sample)
	}
	mu.Lock()
	for id, n := range got2 {
		if n > 1 {
			bad("deliver: the reading subscription received %s %d times without nacking", id, n)
		}
	}
	mu.Unlock()
	return viol, forced
}

func sliceOf(id string, slices int) int {
	h := fnv.New32a()
	h.Write([]byte(id))
	return int(h.Sum32() % uint32(slices))
}

func journal(id string) {
	if dir := os.Getenv("VERIF_REPLAY_DIR"); dir != "" {
		os.MkdirAll(dir, 0o755)
		os.WriteFile(dir+"/current_case.txt", []byte(id), 0o644)
	}
	fmt.Printf("VERIF-CASE: %s\n", id)
}

func TestPairwiseTable(t *testing.T) {
	cases := allCases()
	only := lib.OnlyCase()
	slice, slices := int(lib.Seed()%8), 8
	if lib.Thorough() {
		var sh, shs int
		fmt.Sscanf(os.Getenv("VERIF_SHARD"), "%d", &sh)
		fmt.Sscanf(os.Getenv("VERIF_SHARDS"), "%d", &shs)
		if shs < 1 {
			shs = 1
		}
		slice, slices = sh, shs
	}
	ran, achieved := 0, 0
	for _, c := range cases {
		if only != "" {
			if c.id() != only {
				continue
			}
		} else if sliceOf(c.id(), slices) != slice {
			// (by a hash of the entry, not by its index: the index is aligned with the enumeration order, so that
			// i%8 would give every slice only some of the operations)
			continue
		}
		journal(c.id())
		v, forced := runCase(c)
		ran++
		if forced {
			achieved++
		}
		if len(v) > 0 {
			// re-confirm once (liveness bounds) before reporting
			v2, _ := runCase(c)
			if len(v2) > 0 || !strings.Contains(strings.Join(v, " "), "liveness") {
				lib.Violation(t, "TestPairwiseTable", c.id(), map[string]any{"case": c, "violations": v, "forced": forced})
				if only == "" {
					break
				}
			}
		}
		lib.Case(c.id(), forced, "table", fmt.Sprintf("forced=%v", forced))
		if forced && ran%37 == 0 {
			lib.Sample(map[string]any{"test": "PairwiseTable", "case": c.id(), "forced": forced})
		}
	}
	lib.Count("table_cases_total", int64(len(cases)))
	lib.Count("table_cases_run", int64(ran))
	lib.Count("forcing_attempted", int64(ran))
	lib.Count("forcing_achieved", int64(achieved))
	lib.Exhaustive(fmt.Sprintf("pairwise table slice %d of %d (%d entries in total)", slice, slices, len(cases)), only == "" && !t.Failed())
}

// ---------- random programs with an early Close ----------

func TestRandomCloseCancel(t *testing.T) {
	rapid.Check(t, func(t *rapid.T) {
		p := gcprog.Gen(t, gcprog.Opts{AllowForced: true})
		p.Depth = rapid.IntRange(0, 2).Draw(t, "decoratorDepth")
		total := 0
		for _, pub := range p.Pubs {
			total += len(pub.Calls)
		}
		p.EarlyCloseOn = true
		p.EarlyClose = rapid.IntRange(0, total).Draw(t, "closeAfterPublishCalls")
		journal("random:" + p.Canon())
		h := gcprog.Run(p)
		v := h.CheckC07()
		if len(v) > 0 {
			path := lib.WriteReplay("TestReplayProgram", "C07-TestRandomCloseCancel", map[string]any{"property": "C07", "prog": p, "violations": v, "canon": p.Canon(), "history": h.Dump()})
			t.Fatalf("violation of C07 (%d):\n  %s\nprogram: %s\nreplay: %s", len(v), strings.Join(v, "\n  "), p.Canon(), path)
		}
		lib.Case(p.Canon()+fmt.Sprintf("|depth=%d|close@%d", p.Depth, p.EarlyClose), h.ClosedWhileBusy, "random", fmt.Sprintf("depth=%d", p.Depth))
		if h.ClosedWhileBusy {
			lib.Sample(map[string]any{"test": "RandomCloseCancel", "program": p.Canon(), "depth": p.Depth, "close_after_publish_calls": p.EarlyClose})
		}
	})
}

func TestReplayProgram(t *testing.T) { gcprog.ReplayFromEnv(t, 300) }

// ---------- many Close calls released at the same instant ----------

// "Close ... close the affected output channels exactly once without panic", also for Close calls that start together
// (a signal handler and a deferred Close). The table's close2 entries start their two calls one after the other; here
// 2..8 callers leave a spin barrier at the same instant, thousands of times.
func TestConcurrentCloseBurst(t *testing.T) {
	defer runtime.GOMAXPROCS(runtime.GOMAXPROCS(0))
	rapid.Check(t, func(t *rapid.T) {
		procs := rapid.SampledFrom([]int{2, 4, 16}).Draw(t, "gomaxprocs")
		runtime.GOMAXPROCS(procs)
		closers := rapid.IntRange(2, 8).Draw(t, "closers")
		cfg := gochannel.Config{
			OutputChannelBuffer:            int64(rapid.SampledFrom([]int{0, 2}).Draw(t, "buffer")),
			Persistent:                     rapid.Bool().Draw(t, "persistent"),
			BlockPublishUntilSubscriberAck: rapid.Bool().Draw(t, "blocking"),
		}
		nsubs := rapid.IntRange(0, 2).Draw(t, "subscriptions")
		rounds := 25
		for r := 0; r < rounds; r++ {
			g := gochannel.NewGoChannel(cfg, watermill.NopLogger{})
			var chans []<-chan *message.Message
			for i := 0; i < nsubs; i++ {
				ch, err := g.Subscribe(context.Background(), "T")
				if err != nil {
					t.Fatalf("harness: subscribe: %v", err)
				}
				chans = append(chans, ch)
			}
			var ready, goFlag atomic.Int64
			var wg sync.WaitGroup
			var mu sync.Mutex
			var panics []string
			for c := 0; c < closers; c++ {
				wg.Add(1)
				go func() {
					defer wg.Done()
					defer func() {
						if p := recover(); p != nil {
							mu.Lock()
							panics = append(panics, fmt.Sprint(p))
							mu.Unlock()
						}
					}()
					ready.Add(1)
					for goFlag.Load() == 0 {
						if closers >= procs {
							runtime.Gosched() // more spinners than processors: yield instead of waiting for preemption
						}
					}
					g.Close()
				}()
			}
			for ready.Load() < int64(closers) {
				runtime.Gosched()
			}
			goFlag.Store(1)
			done := make(chan struct{})
			go func() { wg.Wait(); close(done) }()
			select {
			case <-done:
			case <-time.After(lib.Live):
				t.Fatalf("violation: %d concurrent Close calls did not all return within %v", closers, lib.Live)
			}
			if len(panics) > 0 {
				t.Fatalf("violation: %d Close calls started at the same instant: panic: %s", closers, panics[0])
			}
			for i, ch := range chans {
				select {
				case _, ok := <-ch:
					if ok {
						t.Fatalf("violation: message invented on subscription %d after Close", i)
					}
				case <-time.After(lib.Live):
					t.Fatalf("violation: output channel of subscription %d not closed after every Close call returned", i)
				}
			}
		}
		lib.Case(fmt.Sprintf("close-burst|%d|%+v|%d|%d", closers, cfg, nsubs, procs), true, "close-burst")
		lib.Sample(map[string]any{"test": "ConcurrentCloseBurst", "closers": closers, "subscriptions": nsubs, "rounds": rounds})
	})
}
