// C16 — Value semantics: Copy/Equals laws and codec round-trips are identities.
package c16

import (
	"bytes"
	"errors"
	"fmt"
	"math"
	"reflect"
	"sort"
	"strings"
	"testing"
	"time"

	"github.com/ThreeDotsLabs/watermill/components/cqrs"
	"github.com/ThreeDotsLabs/watermill/components/forwarder"
	"github.com/ThreeDotsLabs/watermill/components/requestreply"
	"github.com/ThreeDotsLabs/watermill/message"
	"github.com/ThreeDotsLabs/watermill/verifharness/lib"
	gogotypes "github.com/gogo/protobuf/types"
	"google.golang.org/protobuf/proto"
	"google.golang.org/protobuf/types/known/durationpb"
	"google.golang.org/protobuf/types/known/structpb"
	"google.golang.org/protobuf/types/known/timestamppb"
	"google.golang.org/protobuf/types/known/wrapperspb"
	"pgregory.net/rapid"
)

func TestMain(m *testing.M) {
	lib.Extra("rule", "rapid-generated messages (UUID/metadata: valid UTF-8 incl. empty, control, multi-byte; payload nil/empty/bytes), "+
		"message pairs differing in exactly one component (incl. renamed key keeping the value), values of JSON/protobuf/gogo type families, "+
		"destination topics and replies. Non-trivial: the message has >=1 metadata entry or a non-empty payload (Copy/round-trips), "+
		"or the pair differs in exactly one component (Equals). Distinctness by canonical encoding of the case."+
		" Equals mutations include case-only changes of UUID, metadata key and metadata value (incl. non-ASCII case partners).")
	lib.Extra("assumptions", []string{
		"strings are valid UTF-8 (the property excludes invalid UTF-8); nil and empty payload/metadata are the same value",
		"floats are finite (NaN/Inf are not JSON-serialisable)",
		"oracle: harness reference equality over (UUID, payload bytes, complete key/value set); reflect.DeepEqual / proto.Equal for decoded values",
	})
	lib.Main(m)
}

func nontrivialSnap(s lib.Snap) bool { return len(s.Meta) > 0 || len(s.Payload) > 0 }

// ---------- Copy ----------

func TestCopyLaws(t *testing.T) {
	rapid.Check(t, func(t *rapid.T) {
		s := lib.GenSnap().Draw(t, "msg")
		zero := rapid.Bool().Draw(t, "zeroValueMessage")
		var m *message.Message
		if zero {
			// built without the constructor (nil metadata allowed when empty)
			m = &message.Message{UUID: s.UUID, Payload: s.Payload}
			if len(s.Meta) > 0 {
				m.Metadata = message.Metadata{}
				for k, v := range s.Meta {
					m.Metadata[k] = v
				}
			}
		} else {
			m = s.Msg()
		}
		c := m.Copy()
		if !m.Equals(c) || !c.Equals(m) {
			t.Fatalf("Copy does not Equal the original: %+v vs %+v", lib.SnapOf(m), lib.SnapOf(c))
		}
		if !lib.SnapOf(c).Equal(s) {
			t.Fatalf("Copy differs from the original under reference equality: %+v vs %+v", lib.SnapOf(c), s)
		}
		if a, n := lib.Settled(c); a || n {
			t.Fatalf("fresh copy is settled")
		}
		// the copy owns its metadata: edits on either side are invisible on the other
		edit := rapid.IntRange(0, 3).Draw(t, "edit")
		side := rapid.Bool().Draw(t, "editCopy")
		target, other := m, c
		if side {
			target, other = c, m
		}
		before := lib.SnapOf(other)
		if target.Metadata == nil {
			target.Metadata = message.Metadata{}
		}
		switch edit {
		case 0:
			target.Metadata.Set(lib.GenKey().Draw(t, "newk"), lib.GenUTF8().Draw(t, "newv"))
		case 1:
			for k := range sortedKeys(target.Metadata) {
				_ = k
			}
			ks := sortedKeys(target.Metadata)
			if len(ks) > 0 {
				k := ks[rapid.IntRange(0, len(ks)-1).Draw(t, "ki")]
				target.Metadata[k] = target.Metadata[k] + "x"
			} else {
				target.Metadata.Set("only", "x")
			}
		case 2:
			ks := sortedKeys(target.Metadata)
			if len(ks) > 0 {
				delete(target.Metadata, ks[rapid.IntRange(0, len(ks)-1).Draw(t, "ki")])
			} else {
				target.Metadata.Set("only2", "")
			}
		case 3:
			target.Ack()
		}
		if !lib.SnapOf(other).Equal(before) {
			t.Fatalf("editing one side's metadata changed the other: before %+v after %+v", before, lib.SnapOf(other))
		}
		if a, n := lib.Settled(c); edit == 3 && !side && (a || n) {
			t.Fatalf("settling the original settled the copy")
		}
		lib.Case("copy|"+s.Canon()+fmt.Sprint(zero, edit, side), nontrivialSnap(s), "copy")
		lib.Sample(map[string]any{"test": "CopyLaws", "msg": s, "zero_value": zero, "edit": edit, "edit_copy": side})
	})
}

func sortedKeys(m map[string]string) []string {
	ks := make([]string, 0, len(m))
	for k := range m {
		ks = append(ks, k)
	}
	sort.Strings(ks)
	return ks
}

// ---------- Equals ----------

var mutationNames = []string{"same", "uuid", "payload-flip", "payload-append", "payload-truncate", "payload-nil-empty",
	"meta-value", "meta-add", "meta-remove", "meta-rename", "meta-rename-emptyvalue", "independent", "uuid-case", "meta-key-case", "meta-value-case"}

// otherCase returns s in another letter case (incl. the Unicode simple-folding partners that are not upper/lower of each other).
func otherCase(t *rapid.T, s string) string {
	switch rapid.IntRange(0, 2).Draw(t, "caseChange") {
	case 0:
		if u := strings.ToUpper(s); u != s {
			return u
		}
		return strings.ToLower(s)
	case 1:
		if l := strings.ToLower(s); l != s {
			return l
		}
		return strings.ToUpper(s)
	}
	return strings.NewReplacer("k", "\u212a", "K", "\u212a", "s", "\u017f", "S", "\u017f", "\u00e5", "\u212b").Replace(s)
}

func mutate(t *rapid.T, s lib.Snap, kind string) (lib.Snap, bool) {
	o := lib.Snap{UUID: s.UUID, Payload: append([]byte(nil), s.Payload...), Meta: map[string]string{}}
	for k, v := range s.Meta {
		o.Meta[k] = v
	}
	ks := sortedKeys(o.Meta)
	switch kind {
	case "same":
		return o, true
	case "uuid":
		o.UUID = s.UUID + rapid.StringN(1, 3, -1).Draw(t, "uuidSuffix")
	case "uuid-case":
		// identifiers are compared as they are: "...b3af" and "...B3AF" are two UUIDs
		if o.UUID = otherCase(t, s.UUID); o.UUID == s.UUID {
			return o, false
		}
	case "meta-key-case":
		if len(ks) == 0 {
			return o, false
		}
		k := ks[rapid.IntRange(0, len(ks)-1).Draw(t, "ki")]
		nk := otherCase(t, k)
		if _, ok := o.Meta[nk]; ok || nk == k {
			return o, false
		}
		o.Meta[nk] = o.Meta[k]
		delete(o.Meta, k)
	case "meta-value-case":
		if len(ks) == 0 {
			return o, false
		}
		k := ks[rapid.IntRange(0, len(ks)-1).Draw(t, "ki")]
		if o.Meta[k] = otherCase(t, o.Meta[k]); o.Meta[k] == s.Meta[k] {
			return o, false
		}
	case "payload-flip":
		if len(o.Payload) == 0 {
			return o, false
		}
		i := rapid.IntRange(0, len(o.Payload)-1).Draw(t, "pi")
		o.Payload[i] ^= byte(rapid.IntRange(1, 255).Draw(t, "mask"))
	case "payload-append":
		o.Payload = append(o.Payload, rapid.Byte().Draw(t, "pb"))
	case "payload-truncate":
		if len(o.Payload) == 0 {
			return o, false
		}
		o.Payload = o.Payload[:len(o.Payload)-1]
	case "payload-nil-empty":
		if len(o.Payload) != 0 {
			return o, false
		}
		if o.Payload == nil {
			o.Payload = []byte{}
		} else {
			o.Payload = nil
		}
	case "meta-value":
		if len(ks) == 0 {
			return o, false
		}
		k := ks[rapid.IntRange(0, len(ks)-1).Draw(t, "ki")]
		o.Meta[k] = o.Meta[k] + rapid.StringN(1, 2, -1).Draw(t, "vsuffix")
	case "meta-add":
		k := lib.GenKey().Draw(t, "addk")
		if _, ok := o.Meta[k]; ok {
			return o, false
		}
		o.Meta[k] = lib.GenUTF8().Draw(t, "addv")
	case "meta-remove":
		if len(ks) == 0 {
			return o, false
		}
		delete(o.Meta, ks[rapid.IntRange(0, len(ks)-1).Draw(t, "ki")])
	case "meta-rename", "meta-rename-emptyvalue":
		if len(ks) == 0 {
			return o, false
		}
		k := ks[rapid.IntRange(0, len(ks)-1).Draw(t, "ki")]
		nk := k + rapid.StringN(1, 2, -1).Draw(t, "ksuffix")
		if _, ok := o.Meta[nk]; ok {
			return o, false
		}
		v := o.Meta[k]
		delete(o.Meta, k)
		o.Meta[nk] = v
	case "independent":
		return lib.GenSnap().Draw(t, "other"), true
	}
	return o, true
}

func TestEqualsAgreesWithReference(t *testing.T) {
	rapid.Check(t, func(t *rapid.T) {
		kind := rapid.SampledFrom(mutationNames).Draw(t, "mutation")
		s := lib.GenSnap().Draw(t, "a")
		if kind == "meta-rename-emptyvalue" {
			// make sure an entry with the empty value exists
			s.Meta[lib.GenKey().Draw(t, "emptyValuedKey")] = ""
		}
		if strings.HasSuffix(kind, "-case") {
			// make sure there is something with letters in it
			lettered := rapid.SampledFrom([]string{"6f9619ff-8b86-d011-b42d-00c04fc964ff", "01HZX5K3M", "k", "\u00e9t\u00e9", "Stra\u00dfe", "abc"}).Draw(t, "lettered")
			switch kind {
			case "uuid-case":
				s.UUID = lettered
			case "meta-key-case":
				s.Meta[lettered] = "v"
			default:
				s.Meta["key"] = lettered
			}
		}
		o, ok := mutate(t, s, kind)
		if !ok {
			o, kind = s, "same"
		}
		a, b := s.Msg(), o.Msg()
		if (kind == "payload-append" || kind == "payload-truncate" || kind == "same") && rapid.Bool().Draw(t, "payloadsAreWindowsOfOneBuffer") {
			// the two payloads may be slices of the same backing array (a copy truncated in place, an append into spare
			// capacity, two windows of one read buffer): what counts is the bytes
			long, short := a, b
			if len(b.Payload) > len(a.Payload) {
				long, short = b, a
			}
			if len(short.Payload) > 0 && bytes.HasPrefix(long.Payload, short.Payload) {
				short.Payload = long.Payload[:len(short.Payload)]
			}
		}
		if rapid.Bool().Draw(t, "nilMetaWhenEmpty") {
			if len(a.Metadata) == 0 {
				a.Metadata = nil
			}
			if len(b.Metadata) == 0 {
				b.Metadata = nil
			}
		}
		want := s.Equal(o)
		if got := a.Equals(b); got != want {
			t.Fatalf("Equals(a,b)=%v, reference says %v\n a=%+v\n b=%+v", got, want, s, o)
		}
		if got := b.Equals(a); got != want {
			t.Fatalf("Equals(b,a)=%v, reference says %v (symmetry)\n a=%+v\n b=%+v", got, want, s, o)
		}
		if !a.Equals(a) || !b.Equals(b) {
			t.Fatalf("Equals is not reflexive")
		}
		oneComponent := kind != "same" && kind != "independent"
		lib.Case("eq|"+kind+"|"+s.Canon()+"|"+o.Canon(), oneComponent, "equals:"+kind)
		lib.Sample(map[string]any{"test": "Equals", "mutation": kind, "a": s, "b": o, "equal": want})
	})
}

// ---------- CQRS marshalers ----------

type Inner struct {
	A string            `json:"a"`
	B []int64           `json:"b"`
	M map[string]string `json:"m"`
}

type JSONValue1 struct {
	S   string
	I   int64
	U   uint32
	F   float64
	B   bool
	Bs  []byte
	P   *string
	In  Inner
	Ins []Inner
	T   time.Time
}

type JSONValue2 struct {
	Name_ string `json:"name"`
	Tags  []string
}

func (v JSONValue2) Name() string { return "named:" + v.Name_ }

type JSONValue3 struct {
	X map[string][]float64
	Y [3]int8
	Z *Inner
}

// JSONValue4 has untyped positions: what comes back must be what a JSON decoder documents for them
// (float64 for numbers, string, bool, nil, []interface{}, map[string]interface{}).
type JSONValue4 struct {
	Any interface{}
	M   map[string]interface{}
	L   []interface{}
}

// genUntyped generates values that are their own JSON decode image.
func genUntyped(t *rapid.T, depth int) interface{} {
	max := 5
	if depth <= 0 {
		max = 3
	}
	switch rapid.IntRange(0, max).Draw(t, "untypedKind") {
	case 0:
		return nil
	case 1:
		return rapid.Bool().Draw(t, "ub")
	case 2:
		// whole numbers and fractions alike: both are float64 after decoding
		if rapid.Bool().Draw(t, "wholeNumber") {
			return float64(rapid.Int32().Draw(t, "un"))
		}
		return genFloat().Draw(t, "uf")
	case 3:
		return lib.GenUTF8().Draw(t, "us")
	case 4:
		n := rapid.IntRange(0, 2).Draw(t, "uln")
		l := make([]interface{}, 0, n)
		for i := 0; i < n; i++ {
			l = append(l, genUntyped(t, depth-1))
		}
		return l
	default:
		n := rapid.IntRange(0, 2).Draw(t, "umn")
		m := map[string]interface{}{}
		for i := 0; i < n; i++ {
			m[lib.GenKey().Draw(t, "uk")] = genUntyped(t, depth-1)
		}
		return m
	}
}

func genFloat() *rapid.Generator[float64] {
	return rapid.Float64().Filter(func(f float64) bool { return !math.IsNaN(f) && !math.IsInf(f, 0) })
}

func genInner(t *rapid.T, label string) Inner {
	in := Inner{A: lib.GenUTF8().Draw(t, label+".A")}
	if rapid.Bool().Draw(t, label+".hasB") {
		in.B = rapid.SliceOfN(rapid.Int64(), 0, 3).Draw(t, label+".B")
	}
	if rapid.Bool().Draw(t, label+".hasM") {
		in.M = rapid.MapOfN(lib.GenKey(), lib.GenUTF8(), 0, 3).Draw(t, label+".M")
	}
	return in
}

func genJSONValue(t *rapid.T) (ptr any, fresh func() any) {
	switch rapid.SampledFrom([]int{1, 2, 3, 4, 4}).Draw(t, "jsonType") {
	case 1:
		v := &JSONValue1{
			S: lib.GenUTF8().Draw(t, "S"), I: rapid.Int64().Draw(t, "I"), U: rapid.Uint32().Draw(t, "U"),
			F: genFloat().Draw(t, "F"), B: rapid.Bool().Draw(t, "B"), In: genInner(t, "In"),
		}
		if rapid.Bool().Draw(t, "hasBs") {
			v.Bs = rapid.SliceOfN(rapid.Byte(), 0, 8).Draw(t, "Bs")
		}
		if rapid.Bool().Draw(t, "hasP") {
			p := lib.GenUTF8().Draw(t, "P")
			v.P = &p
		}
		n := rapid.IntRange(0, 2).Draw(t, "nIns")
		for i := 0; i < n; i++ {
			v.Ins = append(v.Ins, genInner(t, "Ins"))
		}
		if rapid.Bool().Draw(t, "hasT") {
			v.T = time.Unix(rapid.Int64Range(0, 4e9).Draw(t, "Tsec"), rapid.Int64Range(0, 999999999).Draw(t, "Tnsec")).UTC()
		}
		return v, func() any { return &JSONValue1{} }
	case 2:
		v := &JSONValue2{Name_: lib.GenUTF8().Draw(t, "name")}
		if rapid.Bool().Draw(t, "hasTags") {
			v.Tags = rapid.SliceOfN(lib.GenUTF8(), 0, 3).Draw(t, "Tags")
		}
		return v, func() any { return &JSONValue2{} }
	case 4:
		v := &JSONValue4{Any: genUntyped(t, 2)}
		if rapid.Bool().Draw(t, "hasM") {
			v.M, _ = genUntyped(t, 2).(map[string]interface{})
		}
		if rapid.Bool().Draw(t, "hasL") {
			v.L, _ = genUntyped(t, 2).([]interface{})
		}
		return v, func() any { return &JSONValue4{} }
	default:
		v := &JSONValue3{}
		if rapid.Bool().Draw(t, "hasX") {
			v.X = rapid.MapOfN(lib.GenKey(), rapid.SliceOfN(genFloat(), 1, 3), 0, 3).Draw(t, "X")
		}
		for i := range v.Y {
			v.Y[i] = rapid.Int8().Draw(t, "Y")
		}
		if rapid.Bool().Draw(t, "hasZ") {
			in := genInner(t, "Z")
			v.Z = &in
		}
		return v, func() any { return &JSONValue3{} }
	}
}

func genNameGen(t *rapid.T) (string, func(v interface{}) string) {
	switch rapid.IntRange(0, 5).Draw(t, "nameGen") {
	case 4:
		// any function of the value is a legal GenerateName: the Go type with its pointer star, odd characters
		return "%T", func(v interface{}) string { return fmt.Sprintf("%T", v) }
	case 5:
		return "decorated", func(v interface{}) string { return "*" + cqrs.StructName(v) + "*  " }
	case 0:
		return "default", nil
	case 1:
		return "StructName", cqrs.StructName
	case 2:
		return "FullyQualified", cqrs.FullyQualifiedStructName
	default:
		return "NamedStruct", cqrs.NamedStruct(cqrs.StructName)
	}
}

func jsonEqual(a, b any) bool {
	// time.Time needs Equal; everything else DeepEqual
	if x, ok := a.(*JSONValue1); ok {
		y, ok := b.(*JSONValue1)
		if !ok {
			return false
		}
		xc, yc := *x, *y
		if !xc.T.Equal(yc.T) {
			return false
		}
		xc.T, yc.T = time.Time{}, time.Time{}
		return reflect.DeepEqual(xc, yc)
	}
	return reflect.DeepEqual(a, b)
}

func TestJSONMarshalerRoundTrip(t *testing.T) {
	rapid.Check(t, func(t *rapid.T) {
		v, fresh := genJSONValue(t)
		ngName, ng := genNameGen(t)
		uuid := lib.GenUTF8().Draw(t, "uuid")
		m := cqrs.JSONMarshaler{GenerateName: ng}
		if rapid.Bool().Draw(t, "customUUID") {
			m.NewUUID = func() string { return uuid }
		}
		msg, err := m.Marshal(v)
		if err != nil {
			t.Fatalf("Marshal failed: %v", err)
		}
		if m.NewUUID != nil && msg.UUID != uuid {
			t.Fatalf("UUID generator ignored: %q", msg.UUID)
		}
		if got, want := m.NameFromMessage(msg), m.Name(v); got != want {
			t.Fatalf("NameFromMessage=%q, Name(v)=%q", got, want)
		}
		// name must also be the same for the non-pointer value (a law of the library's own name generators; a custom
		// generator such as %T may tell pointers from values if it likes)
		if builtin := ngName != "%T" && ngName != "decorated"; builtin && reflect.TypeOf(v).Kind() == reflect.Ptr {
			if m.Name(reflect.ValueOf(v).Elem().Interface()) != m.Name(v) {
				t.Fatalf("Name differs between pointer and value: %q vs %q", m.Name(reflect.ValueOf(v).Elem().Interface()), m.Name(v))
			}
		}
		// transport: the message travels as a copy
		out := fresh()
		if err := m.Unmarshal(msg.Copy(), out); err != nil {
			t.Fatalf("Unmarshal failed: %v", err)
		}
		if !jsonEqual(v, out) {
			t.Fatalf("round trip changed the value:\n in  %#v\n out %#v\n payload %s", v, out, msg.Payload)
		}
		lib.Case(fmt.Sprintf("json|%s|%s", ngName, msg.Payload), len(msg.Payload) > 2, "json-roundtrip")
		lib.Sample(map[string]any{"test": "JSONMarshaler", "name_gen": ngName, "payload": string(msg.Payload), "name": m.Name(v)})
	})
}

func genStruct(t *rapid.T, depth int) *structpb.Value {
	max := 5
	if depth <= 0 {
		max = 3
	}
	switch rapid.IntRange(0, max).Draw(t, "vk") {
	case 0:
		return structpb.NewNullValue()
	case 1:
		return structpb.NewBoolValue(rapid.Bool().Draw(t, "vb"))
	case 2:
		return structpb.NewNumberValue(genFloat().Draw(t, "vn"))
	case 3:
		return structpb.NewStringValue(lib.GenUTF8().Draw(t, "vs"))
	case 4:
		n := rapid.IntRange(0, 2).Draw(t, "ln")
		l := &structpb.ListValue{}
		for i := 0; i < n; i++ {
			l.Values = append(l.Values, genStruct(t, depth-1))
		}
		return structpb.NewListValue(l)
	default:
		n := rapid.IntRange(0, 2).Draw(t, "sn")
		s := &structpb.Struct{Fields: map[string]*structpb.Value{}}
		for i := 0; i < n; i++ {
			s.Fields[lib.GenKey().Draw(t, "sk")] = genStruct(t, depth-1)
		}
		return structpb.NewStructValue(s)
	}
}

func genProtoValue(t *rapid.T) (proto.Message, func() proto.Message) {
	switch rapid.IntRange(0, 6).Draw(t, "protoType") {
	case 0:
		return wrapperspb.String(lib.GenUTF8().Draw(t, "s")), func() proto.Message { return &wrapperspb.StringValue{} }
	case 1:
		return wrapperspb.Int64(rapid.Int64().Draw(t, "i")), func() proto.Message { return &wrapperspb.Int64Value{} }
	case 2:
		return wrapperspb.Bytes(rapid.SliceOfN(rapid.Byte(), 0, 20).Draw(t, "b")), func() proto.Message { return &wrapperspb.BytesValue{} }
	case 3:
		return wrapperspb.Double(genFloat().Draw(t, "d")), func() proto.Message { return &wrapperspb.DoubleValue{} }
	case 4:
		return &durationpb.Duration{Seconds: rapid.Int64Range(-1e9, 1e9).Draw(t, "sec"), Nanos: rapid.Int32Range(0, 999999999).Draw(t, "ns")},
			func() proto.Message { return &durationpb.Duration{} }
	case 5:
		return &timestamppb.Timestamp{Seconds: rapid.Int64Range(0, 4e9).Draw(t, "sec"), Nanos: rapid.Int32Range(0, 999999999).Draw(t, "ns")},
			func() proto.Message { return &timestamppb.Timestamp{} }
	default:
		return genStruct(t, 2), func() proto.Message { return &structpb.Value{} }
	}
}

func TestProtoMarshalerRoundTrip(t *testing.T) {
	rapid.Check(t, func(t *rapid.T) {
		v, fresh := genProtoValue(t)
		ngName, ng := genNameGen(t)
		m := cqrs.ProtoMarshaler{GenerateName: ng}
		msg, err := m.Marshal(v)
		if err != nil {
			t.Fatalf("Marshal failed: %v", err)
		}
		if got, want := m.NameFromMessage(msg), m.Name(v); got != want {
			t.Fatalf("NameFromMessage=%q, Name(v)=%q", got, want)
		}
		out := fresh()
		if err := m.Unmarshal(msg.Copy(), out); err != nil {
			t.Fatalf("Unmarshal failed: %v", err)
		}
		if !proto.Equal(v, out) {
			t.Fatalf("round trip changed the value: in %v out %v", v, out)
		}
		// the target need not be fresh (a re-used or pre-populated object): Unmarshal makes it the decoded value, nothing of
		// what it held before remains
		if err := m.Unmarshal(msg.Copy(), out); err != nil || !proto.Equal(v, out) {
			t.Fatalf("decoding the same message into a target that already holds a value gives %v, sent %v (err %v)", out, v, err)
		}
		zeroMsg, err := m.Marshal(fresh())
		if err != nil {
			t.Fatalf("Marshal of the zero value failed: %v", err)
		}
		if err := m.Unmarshal(zeroMsg, out); err != nil || !proto.Equal(fresh(), out) {
			t.Fatalf("decoding the zero value into a target that held %v gives %v (err %v)", v, out, err)
		}
		// the deprecated gogo-based marshaler is documented as compatible both ways
		g := cqrs.ProtobufMarshaler{GenerateName: ng}
		out2 := fresh()
		if err := g.Unmarshal(msg.Copy(), out2); err != nil {
			t.Fatalf("ProtobufMarshaler.Unmarshal of ProtoMarshaler output failed: %v", err)
		}
		if !proto.Equal(v, out2) {
			t.Fatalf("ProtoMarshaler -> ProtobufMarshaler changed the value: in %v out %v", v, out2)
		}
		msg3, err := g.Marshal(v)
		if err != nil {
			t.Fatalf("ProtobufMarshaler.Marshal of a std proto value failed: %v", err)
		}
		if got, want := g.NameFromMessage(msg3), g.Name(v); got != want {
			t.Fatalf("ProtobufMarshaler NameFromMessage=%q, Name(v)=%q", got, want)
		}
		out3 := fresh()
		if err := m.Unmarshal(msg3.Copy(), out3); err != nil || !proto.Equal(v, out3) {
			t.Fatalf("ProtobufMarshaler -> ProtoMarshaler changed the value: in %v out %v err %v", v, out3, err)
		}
		lib.Case(fmt.Sprintf("proto|%s|%T|%x", ngName, v, msg.Payload), len(msg.Payload) > 0, "proto-roundtrip")
		lib.Sample(map[string]any{"test": "ProtoMarshaler", "type": fmt.Sprintf("%T", v), "value": fmt.Sprint(v), "name": m.Name(v)})
	})
}

type gogoMsg interface {
	Reset()
	String() string
	ProtoMessage()
}

func TestGogoMarshalerRoundTrip(t *testing.T) {
	rapid.Check(t, func(t *rapid.T) {
		var v, out gogoMsg
		switch rapid.IntRange(0, 4).Draw(t, "gogoType") {
		case 0:
			v, out = &gogotypes.StringValue{Value: lib.GenUTF8().Draw(t, "s")}, &gogotypes.StringValue{}
		case 1:
			v, out = &gogotypes.Int64Value{Value: rapid.Int64().Draw(t, "i")}, &gogotypes.Int64Value{}
		case 2:
			v, out = &gogotypes.BytesValue{Value: rapid.SliceOfN(rapid.Byte(), 1, 20).Draw(t, "b")}, &gogotypes.BytesValue{}
		case 3:
			v, out = &gogotypes.Duration{Seconds: rapid.Int64Range(-1e9, 1e9).Draw(t, "sec"), Nanos: rapid.Int32Range(0, 999999999).Draw(t, "ns")}, &gogotypes.Duration{}
		default:
			v, out = &gogotypes.Timestamp{Seconds: rapid.Int64Range(0, 4e9).Draw(t, "sec"), Nanos: rapid.Int32Range(0, 999999999).Draw(t, "ns")}, &gogotypes.Timestamp{}
		}
		ngName, ng := genNameGen(t)
		m := cqrs.ProtobufMarshaler{GenerateName: ng, DisableStdProtoFallback: rapid.Bool().Draw(t, "noFallback")}
		msg, err := m.Marshal(v)
		if err != nil {
			t.Fatalf("Marshal failed: %v", err)
		}
		if got, want := m.NameFromMessage(msg), m.Name(v); got != want {
			t.Fatalf("NameFromMessage=%q, Name(v)=%q", got, want)
		}
		if err := m.Unmarshal(msg.Copy(), out); err != nil {
			t.Fatalf("Unmarshal failed: %v", err)
		}
		if !reflect.DeepEqual(v, out) {
			t.Fatalf("round trip changed the value: in %v out %v", v, out)
		}
		lib.Case(fmt.Sprintf("gogo|%s|%T|%x", ngName, v, msg.Payload), len(msg.Payload) > 0, "gogo-roundtrip")
		lib.Sample(map[string]any{"test": "ProtobufMarshaler(gogo)", "type": fmt.Sprintf("%T", v), "value": v.String()})
	})
}

// ---------- forwarder envelope ----------

func genTopic() *rapid.Generator[string] {
	return rapid.OneOf(rapid.StringMatching(`[a-z._/-]{1,12}`), rapid.StringN(1, 10, -1))
}

func TestEnvelopeRoundTrip(t *testing.T) {
	rapid.Check(t, func(t *rapid.T) {
		s := lib.GenSnap().Draw(t, "msg")
		topic := genTopic().Draw(t, "topic")
		m := s.Msg()
		if rapid.Bool().Draw(t, "nilMeta") && len(s.Meta) == 0 {
			m.Metadata = nil
		}
		wrapped, err := forwarder.VerifWrapMessageInEnvelope(topic, m)
		if err != nil {
			t.Fatalf("wrap failed for non-empty topic %q: %v", topic, err)
		}
		if !lib.SnapOf(m).Equal(s) {
			t.Fatalf("wrapping modified the original message")
		}
		gotTopic, un, err := forwarder.VerifUnwrapMessageFromEnvelope(wrapped.Copy())
		if err != nil {
			t.Fatalf("unwrap failed: %v", err)
		}
		if gotTopic != topic {
			t.Fatalf("destination topic changed: %q -> %q", topic, gotTopic)
		}
		if !lib.SnapOf(un).Equal(s) {
			t.Fatalf("envelope round trip changed the message:\n in  %+v\n out %+v\n envelope %s", s, lib.SnapOf(un), wrapped.Payload)
		}
		// empty destination topic must be refused
		if _, err := forwarder.VerifWrapMessageInEnvelope("", m); err == nil {
			t.Fatalf("wrap accepted an empty destination topic")
		}
		lib.Case("env|"+topic+"|"+s.Canon(), nontrivialSnap(s), "envelope")
		lib.Sample(map[string]any{"test": "Envelope", "topic": topic, "msg": s, "envelope": string(wrapped.Payload)})
	})
}

// ---------- request/reply ----------

type ReplyResult struct {
	ID    string
	N     int64
	Items []string
	In    *Inner
}

func checkReply[R any](t *rapid.T, res R, errText *string, eq func(a, b R) bool) {
	m := requestreply.BackendPubsubJSONMarshaler[R]{}
	params := requestreply.BackendOnCommandProcessedParams[R]{HandlerResult: res}
	if errText != nil {
		params.HandleErr = errors.New(*errText)
	}
	msg, err := m.MarshalReply(params)
	if err != nil {
		t.Fatalf("MarshalReply failed: %v", err)
	}
	reply, err := m.UnmarshalReply(msg.Copy())
	if err != nil {
		t.Fatalf("UnmarshalReply failed: %v", err)
	}
	if !eq(reply.HandlerResult, res) {
		t.Fatalf("reply result changed: in %#v out %#v", res, reply.HandlerResult)
	}
	if (reply.Error != nil) != (errText != nil) {
		t.Fatalf("reply error presence changed: sent %v got %v", errText, reply.Error)
	}
	if errText != nil && reply.Error.Error() != *errText {
		t.Fatalf("reply error text changed: %q -> %q", *errText, reply.Error.Error())
	}
}

func TestReplyRoundTrip(t *testing.T) {
	rapid.Check(t, func(t *rapid.T) {
		var errText *string
		if rapid.Bool().Draw(t, "hasErr") {
			e := lib.GenUTF8().Draw(t, "errText")
			// error texts come in all lengths (joined validation errors, stack traces): a few long ones
			if n := rapid.SampledFrom([]int{0, 0, 0, 0, 1023, 1024, 1025, 5000}).Draw(t, "errTextPaddedTo"); n > len(e) {
				e += strings.Repeat(rapid.SampledFrom([]string{"x", "é", "% "}).Draw(t, "pad"), n-len(e))
			}
			errText = &e
		}
		kind := rapid.IntRange(0, 3).Draw(t, "resultType")
		var canon string
		switch kind {
		case 0:
			checkReply(t, struct{}{}, errText, func(a, b struct{}) bool { return true })
			canon = "{}"
		case 1:
			s := lib.GenUTF8().Draw(t, "res")
			checkReply(t, s, errText, func(a, b string) bool { return a == b })
			canon = s
		case 2:
			r := ReplyResult{ID: lib.GenUTF8().Draw(t, "id"), N: rapid.Int64().Draw(t, "n")}
			if rapid.Bool().Draw(t, "hasItems") {
				r.Items = rapid.SliceOfN(lib.GenUTF8(), 0, 3).Draw(t, "items")
			}
			if rapid.Bool().Draw(t, "hasIn") {
				in := genInner(t, "in")
				r.In = &in
			}
			checkReply(t, r, errText, func(a, b ReplyResult) bool { return reflect.DeepEqual(a, b) })
			canon = fmt.Sprintf("%#v %v", r, r.In)
		default:
			b := rapid.SliceOfN(rapid.Byte(), 0, 10).Draw(t, "bytes")
			checkReply(t, b, errText, func(a, b []byte) bool { return bytes.Equal(a, b) })
			canon = fmt.Sprintf("%x", b)
		}
		e := "<nil>"
		if errText != nil {
			e = *errText
		}
		lib.Case(fmt.Sprintf("reply|%d|%s|%q|%v", kind, canon, e, errText != nil), errText != nil || kind != 0, "reply")
		lib.Sample(map[string]any{"test": "Reply", "result_kind": kind, "result": canon, "error": errText})
	})
}

// Several messages wrapped before any of them is unwrapped (a batched forwarder.Publisher.Publish does this):
// every envelope must still decode to its own message.
func TestEnvelopeBatchRoundTrip(t *testing.T) {
	rapid.Check(t, func(t *rapid.T) {
		n := rapid.IntRange(2, 5).Draw(t, "batch")
		var snaps []lib.Snap
		var topics []string
		var wrapped []*message.Message
		for i := 0; i < n; i++ {
			s := lib.GenSnap().Draw(t, "msg")
			topic := genTopic().Draw(t, "topic")
			w, err := forwarder.VerifWrapMessageInEnvelope(topic, s.Msg())
			if err != nil {
				t.Fatalf("wrap failed: %v", err)
			}
			snaps, topics, wrapped = append(snaps, s), append(topics, topic), append(wrapped, w)
		}
		for i, w := range wrapped {
			topic, un, err := forwarder.VerifUnwrapMessageFromEnvelope(w)
			if err != nil {
				t.Fatalf("violation: envelope %d of %d (wrapped before the others were unwrapped) cannot be unwrapped: %v", i, n, err)
			}
			if topic != topics[i] || !lib.SnapOf(un).Equal(snaps[i]) {
				t.Fatalf("violation: envelope %d of %d decodes to (%q, %+v), wrapped (%q, %+v)", i, n, topic, lib.SnapOf(un), topics[i], snaps[i])
			}
		}
		// the same through forwarder.Publisher with one batched Publish call
		capture := lib.NewScriptPub("")
		fpub := forwarder.NewPublisher(capture, forwarder.PublisherConfig{})
		var msgs []*message.Message
		for _, s := range snaps {
			msgs = append(msgs, s.Msg())
		}
		if err := fpub.Publish(topics[0], msgs...); err != nil {
			t.Fatalf("forwarder.Publisher refused a batch: %v", err)
		}
		calls := capture.Calls()
		if len(calls) != 1 || len(calls[0].Snaps) != n {
			t.Fatalf("violation: forwarder.Publisher turned one batch of %d into %d calls", n, len(calls))
		}
		for i, env := range calls[0].Snaps {
			topic, un, err := forwarder.VerifUnwrapMessageFromEnvelope(env.Msg())
			if err != nil || topic != topics[0] || !lib.SnapOf(un).Equal(snaps[i]) {
				t.Fatalf("violation: message %d of a batch published through forwarder.Publisher does not unwrap to itself: err=%v topic=%q", i, err, topic)
			}
		}
		canon := ""
		for _, s := range snaps {
			canon += s.Canon() + ";"
		}
		lib.Case("envbatch|"+canon, true, "envelope-batch")
		lib.Sample(map[string]any{"test": "EnvelopeBatch", "batch": n})
	})
}
