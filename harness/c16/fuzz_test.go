package c16

import (
	"encoding/json"
	"testing"
	"unicode/utf8"

	"github.com/ThreeDotsLabs/watermill/components/forwarder"
	"github.com/ThreeDotsLabs/watermill/message"
	"github.com/ThreeDotsLabs/watermill/verifharness/lib"
)

// independent model of the forwarder envelope
type refEnvelope struct {
	DestinationTopic string            `json:"destination_topic"`
	UUID             string            `json:"uuid"`
	Payload          []byte            `json:"payload"`
	Metadata         map[string]string `json:"metadata"`
}

// FuzzEnvelopeUnwrap: accept/reject must agree with an independent decode; accepted envelopes must
// decode to the same fields and survive a wrap/unwrap round trip.
func FuzzEnvelopeUnwrap(f *testing.F) {
	for _, s := range []string{
		`{"destination_topic":"t","uuid":"u","payload":"cA==","metadata":{"a":"b"}}`,
		`{"destination_topic":"","uuid":"u"}`, `{}`, `[]`, `null`, `"str"`, `{"destination_topic":5}`, ``, `not json`,
		`{"destination_topic":"t","payload":null,"metadata":null}`, `{"destination_topic":"\u0000","uuid":"😀"}`,
		`{"Destination_Topic":"case","UUID":"x"}`, `{"destination_topic":"t","destination_topic":""}`,
	} {
		f.Add([]byte(s))
	}
	f.Fuzz(func(t *testing.T, data []byte) {
		in := message.NewMessage("envelope", append([]byte(nil), data...))
		topic, got, err := forwarder.VerifUnwrapMessageFromEnvelope(in)
		var ref refEnvelope
		refErr := json.Unmarshal(data, &ref)
		wantOK := refErr == nil && ref.DestinationTopic != ""
		if (err == nil) != wantOK {
			t.Fatalf("violation: unwrap accepted=%v, independent decode says valid=%v (topic %q) for %q", err == nil, wantOK, ref.DestinationTopic, data)
		}
		if err != nil {
			return
		}
		want := lib.Snap{UUID: ref.UUID, Payload: ref.Payload, Meta: ref.Metadata}
		if want.Meta == nil {
			want.Meta = map[string]string{}
		}
		if topic != ref.DestinationTopic || !lib.SnapOf(got).Equal(want) {
			t.Fatalf("violation: unwrap gave (%q, %+v), independent decode (%q, %+v)", topic, lib.SnapOf(got), ref.DestinationTopic, want)
		}
		// fix-point: wrap + unwrap of an accepted message is the identity
		w, werr := forwarder.VerifWrapMessageInEnvelope(topic, got)
		if werr != nil {
			t.Fatalf("violation: cannot re-wrap an unwrapped message: %v", werr)
		}
		topic2, got2, err2 := forwarder.VerifUnwrapMessageFromEnvelope(w)
		if err2 != nil || topic2 != topic || !lib.SnapOf(got2).Equal(lib.SnapOf(got)) {
			t.Fatalf("violation: wrap/unwrap is not a fix-point: (%q,%+v) -> (%q,%+v) err %v", topic, lib.SnapOf(got), topic2, lib.SnapOf(got2), err2)
		}
	})
}

// FuzzEqualsCopy: Equals agrees with the reference equality and Copy is equal and independent,
// on coverage-guided (uuid, payload, two metadata entries) x (one-field variation).
func FuzzEqualsCopy(f *testing.F) {
	f.Add("u", []byte("p"), "a", "", "b", "", uint8(0), "x")
	f.Add("", []byte(nil), "", "", "", "", uint8(5), "")
	f.Add("é", []byte{0, 255}, "k", "v", "k2", "v2", uint8(7), "\x00")
	f.Fuzz(func(t *testing.T, uuid string, payload []byte, k1, v1, k2, v2 string, variation uint8, extra string) {
		for _, s := range []string{uuid, k1, v1, k2, v2, extra} {
			if !utf8.ValidString(s) {
				t.Skip("the property is about valid UTF-8")
			}
		}
		a := lib.Snap{UUID: uuid, Payload: payload, Meta: map[string]string{}}
		if variation&64 == 0 {
			a.Meta[k1] = v1
		}
		if variation&128 == 0 {
			a.Meta[k2] = v2
		}
		b := lib.Snap{UUID: a.UUID, Payload: append([]byte(nil), a.Payload...), Meta: map[string]string{}}
		for k, v := range a.Meta {
			b.Meta[k] = v
		}
		switch variation & 7 {
		case 1:
			b.UUID += extra
		case 2:
			b.Payload = append(b.Payload, []byte(extra)...)
		case 3:
			b.Meta[k1] = v1 + extra
		case 4:
			delete(b.Meta, k1)
			b.Meta[k1+extra] = v1 // renamed key keeping the value
		case 5:
			delete(b.Meta, k2)
		case 6:
			b.Meta[extra] = ""
		}
		ma, mb := a.Msg(), b.Msg()
		if got, want := ma.Equals(mb), a.Equal(b); got != want {
			t.Fatalf("violation: Equals=%v, reference=%v for %+v vs %+v", got, want, a, b)
		}
		if ma.Equals(mb) != mb.Equals(ma) {
			t.Fatalf("violation: Equals is not symmetric for %+v vs %+v", a, b)
		}
		c := ma.Copy()
		if !c.Equals(ma) || !lib.SnapOf(c).Equal(a) {
			t.Fatalf("violation: Copy differs from the original %+v", a)
		}
		c.Metadata.Set(extra, "edited")
		if !lib.SnapOf(ma).Equal(a) {
			t.Fatalf("violation: editing the copy's metadata changed the original %+v -> %+v", a, lib.SnapOf(ma))
		}
	})
}
