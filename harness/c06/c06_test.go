// C06 — Router.Close is graceful: returns nil only when no handler runs or can start.
package c06

import (
	"context"
	"fmt"
	"strings"
	"sync"
	"sync/atomic"
	"testing"
	"time"

	"github.com/ThreeDotsLabs/watermill"
	"github.com/ThreeDotsLabs/watermill/message"
	"github.com/ThreeDotsLabs/watermill/pubsub/gochannel"
	"github.com/ThreeDotsLabs/watermill/verifharness/lib"
	"pgregory.net/rapid"
)

func TestMain(m *testing.M) {
	lib.Extra("rule", "rapid-generated shutdown scenarios: 1..3 handlers (with/without publisher) on scripted subscribers or on a GoChannel, 0..2 settled background messages per handler, CloseTimeout 50..300 ms, 1..8 concurrent Close callers, "+
		"a subject message held (by parking the goroutine at a hook point, by the handler itself, or emitted from inside the subscriber's Close) at a generated point of its path when Close is invoked: "+
		"inside the subscriber decorator, received-not-dispatched, dispatched-not-started, in the handler (duration 0 / short / CloseTimeout/2 / beyond CloseTimeout), publishing, before settlement, emitted during Close, or the handler's close watcher racing the shutdown; generated release delay. "+
		"Oracle, sampled at the instant every Close call returns, at Run's return and after a 50 ms window: if all Close calls returned nil then no message is 'started but not ended/settled' at that instant, nothing starts or becomes acked afterwards, publishers were closed before the return, subscribers get closed (bounded), every caller and Run return; a handler outliving CloseTimeout makes the closing call return an error in time. "+
		"Non-trivial: the subject message was actually held at its path point when Close was invoked.")
	lib.Extra("assumptions", []string{
		"settlement and handler progress are sampled synchronously in the goroutine that called Close, right after it returned (no asynchronous watchers)",
		"a repeated Close after a timed-out Close returns nil by documented idempotency; the nil-only-when-quiescent clause is asserted for runs in which no Close call returned an error",
		"subscriber closure is demanded within the liveness bound, not before Close returns (it is closed by a watcher goroutine Close does not join)",
	})
	lib.Main(m)
}

type caseT struct {
	Handlers     int
	WithPub      []bool
	Background   []int
	GoChannel    bool
	CloseTimeout time.Duration
	Callers      int
	Point        string // none, decorator, received, dispatched, in-handler, publishing, before-settle, emit-in-close, watcher-race
	HandlerDur   int    // 0 zero, 1 short, 2 timeout/2, 3 beyond timeout   (in-handler only; others 0/1)
	ReleaseDelay int    // 0 right away, 1 after 1 ms, 2 after timeout/3
	SubjectOn    int
	SlowDrain    bool // the subject's subscriber keeps its channel open until the in-flight message is settled
	Outcome      int  // subject handler: 0 success, 1 error, 2 panic, 3 an error that says "cancelled" (the handler, or a call it made, gave up on a cancelled context)
	SlowLogUs    int  // the logger's Error() takes this long (loggers do I/O)
	NegTimeout   bool // CloseTimeout is negative (a deadline that already passed)
	PubBlocks    bool // "publishing" point: the subject's Publish call returns only once the publisher has been closed (a client that flushes on Close)
	ViaCtx       bool // the shutdown is started by cancelling the context given to Run (the Close callers follow)
	SubEnds      bool // every subscription ends by itself (channel closed by the subscriber) while the subject invocation runs; the router then closes itself
	Noise        []uint8
}

func (c caseT) String() string { return fmt.Sprintf("%+v", plain(c)) }

type plain caseT

var points = []string{"watcher-race", "emit-in-close", "before-settle", "publishing", "in-handler", "received", "dispatched", "decorator", "in-handler", "watcher-race", "emit-in-close", "none", "sub-ends", "sub-ends"}

var hookOf = map[string]string{
	"decorator":     "decorator.sub.before_out",
	"received":      "router.run.received",
	"dispatched":    "router.handle.start",
	"publishing":    "router.handle.before_publish",
	"before-settle": "router.handle.before_settle",
	"watcher-race":  "router.handleclose.before_select",
}

func genCase(t *rapid.T) caseT {
	c := caseT{
		Handlers:     rapid.IntRange(1, 3).Draw(t, "handlers"),
		GoChannel:    rapid.IntRange(0, 3).Draw(t, "gochannel") == 0,
		CloseTimeout: time.Duration(rapid.IntRange(50, 300).Draw(t, "closeTimeoutMs")) * time.Millisecond,
		Callers:      rapid.IntRange(1, 8).Draw(t, "closeCallers"),
		Point:        rapid.SampledFrom(points).Draw(t, "pathPoint"),
		ReleaseDelay: rapid.IntRange(0, 2).Draw(t, "releaseDelay"),
	}
	for i := 0; i < c.Handlers; i++ {
		c.WithPub = append(c.WithPub, rapid.Bool().Draw(t, "withPublisher"))
		c.Background = append(c.Background, rapid.IntRange(0, 2).Draw(t, "backgroundMessages"))
	}
	c.SubjectOn = rapid.IntRange(0, c.Handlers-1).Draw(t, "subjectHandler")
	wantSubEnds := false
	if c.Point == "sub-ends" { // = in-handler, and the subscriptions end by themselves meanwhile (script subscribers only)
		c.Point = "in-handler"
		wantSubEnds = !c.GoChannel
	}
	if c.Point == "publishing" {
		c.WithPub[c.SubjectOn] = true
	}
	if c.Point == "in-handler" {
		c.HandlerDur = rapid.IntRange(0, 3).Draw(t, "handlerDuration")
	} else {
		c.HandlerDur = rapid.IntRange(0, 1).Draw(t, "handlerDuration")
	}
	if c.GoChannel && c.Point == "emit-in-close" {
		c.Point = "in-handler"
	}
	if !c.GoChannel && c.Point == "in-handler" && !wantSubEnds {
		c.SlowDrain = rapid.Bool().Draw(t, "subscriberDrainsBeforeClosing")
	}
	c.Outcome = rapid.SampledFrom([]int{0, 0, 1, 2, 2, 3, 3}).Draw(t, "subjectOutcome")
	if c.Point == "publishing" || c.Point == "before-settle" {
		c.Outcome = 0 // these points are only reached by a successful handler
	}
	if c.Point == "publishing" && !c.GoChannel && rapid.Bool().Draw(t, "publishReturnsOnlyWhenThePublisherIsClosed") {
		// nothing here is about the timeout: Close has all the time it needs
		c.PubBlocks = true
		c.CloseTimeout = 5 * time.Second
	}
	c.SlowLogUs = rapid.SampledFrom([]int{0, 0, 300, 2000}).Draw(t, "loggerErrorDurationUs")
	if c.Point == "in-handler" && !c.SlowDrain && !wantSubEnds && rapid.IntRange(0, 5).Draw(t, "negativeCloseTimeout") == 0 {
		c.NegTimeout = true
		c.HandlerDur = 3
	}
	if wantSubEnds {
		// the router's own Close call is not observable, so nothing here may depend on who runs into the timeout:
		// short handler, generous timeout
		c.SubEnds = true
		c.HandlerDur = c.HandlerDur % 2
		c.ReleaseDelay = c.ReleaseDelay % 2
		c.CloseTimeout = 5 * time.Second
	}
	if !wantSubEnds && !c.NegTimeout && c.HandlerDur < 3 && rapid.IntRange(0, 3).Draw(t, "stoppedThroughRunContext") == 0 {
		// the router's own Close call (started by the cancelled context) is not observable: nothing here may depend
		// on who runs into the timeout, so short handlers and a generous timeout only
		c.ViaCtx = true
		c.HandlerDur = c.HandlerDur % 2
		c.CloseTimeout = 5 * time.Second
	}
	c.Noise = rapid.SliceOfN(rapid.Uint8Range(0, 5), 0, 8).Draw(t, "noise")
	return c
}

var errSubject = fmt.Errorf("subject handler fails")

// slowLogger is a logger whose Error() takes a while (real loggers write somewhere).
type slowLogger struct{ d time.Duration }

func (l slowLogger) Error(msg string, err error, fields watermill.LogFields) {
	if l.d > 0 {
		time.Sleep(l.d)
	}
}
func (l slowLogger) Info(string, watermill.LogFields)                 {}
func (l slowLogger) Debug(string, watermill.LogFields)                {}
func (l slowLogger) Trace(string, watermill.LogFields)                {}
func (l slowLogger) With(watermill.LogFields) watermill.LoggerAdapter { return l }

type msgState struct {
	tag     string
	msg     *message.Message
	started atomic.Bool
	ended   atomic.Bool
	emitted atomic.Bool
	subject bool
}

type sample struct {
	started, ended, acked, nacked bool
}

type world struct {
	mu     sync.Mutex
	msgs   []*msgState
	starts atomic.Int64
}

func (w *world) snapshot() map[string]sample {
	w.mu.Lock()
	defer w.mu.Unlock()
	out := map[string]sample{}
	for _, m := range w.msgs {
		s := sample{started: m.started.Load(), ended: m.ended.Load()}
		s.acked, s.nacked = lib.Settled(m.msg)
		out[m.tag] = s
	}
	return out
}

func (w *world) add(tag string, subject bool) *msgState {
	m := message.NewMessage(tag, []byte(tag))
	ms := &msgState{tag: tag, msg: m, subject: subject}
	w.mu.Lock()
	w.msgs = append(w.msgs, ms)
	w.mu.Unlock()
	return ms
}

func (w *world) get(tag string) *msgState {
	w.mu.Lock()
	defer w.mu.Unlock()
	for _, m := range w.msgs {
		if m.tag == tag {
			return m
		}
	}
	return nil
}

type closeRes struct {
	err       error
	snap      map[string]sample
	pubClosed []int
	done      chan struct{}
}

func runCase(c caseT) (viol []string, held bool) {
	bad := func(f string, a ...any) { viol = append(viol, fmt.Sprintf(f, a...)) }
	ctl := lib.Install()
	defer ctl.Uninstall()
	ctl.Noise(c.Noise)
	w := &world{}
	routerTimeout := c.CloseTimeout
	if c.NegTimeout {
		routerTimeout = -time.Millisecond
	}
	router, err := message.NewRouter(message.RouterConfig{CloseTimeout: routerTimeout}, slowLogger{time.Duration(c.SlowLogUs) * time.Microsecond})
	if err != nil {
		return []string{"harness: " + err.Error()}, false
	}
	gate := make(chan struct{})
	var gateOnce sync.Once
	openGate := func() { gateOnce.Do(func() { close(gate) }) }
	defer openGate()
	inHandler := make(chan struct{}, 16)
	dur := func() time.Duration {
		switch c.HandlerDur {
		case 1:
			return time.Millisecond
		case 2:
			return c.CloseTimeout / 2
		case 3:
			// far beyond the timeout: a Close caller that is scheduled late (loaded machine) must still time out first
			if c.SlowDrain {
				// and far enough for "returns an error instead of hanging" to be told from "returns when the handler is done"
				return c.CloseTimeout + 6*time.Second
			}
			return 3 * c.CloseTimeout
		}
		return 0
	}()
	handler := func(hasPub bool) message.HandlerFunc {
		return func(m *message.Message) ([]*message.Message, error) {
			ms := w.get(m.UUID)
			if ms == nil {
				return nil, nil
			}
			ms.started.Store(true)
			w.starts.Add(1)
			defer ms.ended.Store(true)
			if ms.subject {
				inHandler <- struct{}{}
				if c.Point == "in-handler" {
					<-gate // Close is invoked while we are here
				}
				if dur > 0 {
					time.Sleep(dur)
				}
			}
			if ms.subject {
				switch c.Outcome {
				case 1:
					return nil, errSubject
				case 2:
					panic("subject handler panics")
				case 3:
					return nil, fmt.Errorf("subject handler gave up: %w", context.Canceled)
				}
			}
			if hasPub {
				return []*message.Message{message.NewMessage("out-"+m.UUID, nil)}, nil
			}
			return nil, nil
		}
	}
	subs := make([]*lib.ScriptSub, c.Handlers)
	pubs := make([]*lib.ScriptPub, c.Handlers)
	var handles []*message.Handler
	var gc *gochannel.GoChannel
	if c.GoChannel {
		gc = gochannel.NewGoChannel(gochannel.Config{}, watermill.NopLogger{})
	}
	for i := 0; i < c.Handlers; i++ {
		var sub message.Subscriber
		if c.GoChannel {
			sub = gc
		} else {
			subs[i] = lib.NewScriptSub("")
			if c.SlowDrain && i == c.SubjectOn {
				// a subscriber that closes its channel only after the message in flight was settled,
				// whatever happens to the contexts (brokers that drain on Close behave like this)
				subs[i].IgnoreCtx = true
				subs[i].OnClose = func(int) {
					lib.WaitUntil(5*time.Second, func() bool {
						ms := w.get("subject")
						if ms == nil || !ms.emitted.Load() {
							return true
						}
						a, n := lib.Settled(ms.msg)
						return a || n
					})
				}
			}
			sub = subs[i]
		}
		name, topic := fmt.Sprintf("h%d", i), fmt.Sprintf("t%d", i)
		if c.WithPub[i] {
			pubs[i] = lib.NewScriptPub("")
			if c.PubBlocks && i == c.SubjectOn {
				p := pubs[i]
				p.OnPublish = func(pc *lib.PubCall) error {
					if len(pc.Msgs) == 1 && pc.Msgs[0].UUID == "out-subject" {
						lib.WaitUntil(4*lib.Live, func() bool { return p.CloseCalls() > 0 })
					}
					return nil
				}
			}
			handles = append(handles, router.AddHandler(name, topic, sub, []string{"out", ""}[(i+len(c.Noise))%2], pubs[i], handler(true)))
		} else {
			h := handler(false)
			handles = append(handles, router.AddNoPublisherHandler(name, topic, sub, func(m *message.Message) error { _, err := h(m); return err }))
		}
	}
	var park *lib.Parked
	if c.Point == "watcher-race" {
		park = ctl.Park(hookOf[c.Point], nil, c.SubjectOn%c.Handlers)
	}
	runRet := make(chan struct{})
	var runErr error
	var runSnap map[string]sample
	runCtx, cancelRun := context.WithCancel(context.Background())
	defer cancelRun()
	go func() {
		runErr = router.Run(runCtx)
		runSnap = w.snapshot()
		close(runRet)
	}()
	select {
	case <-router.Running():
	case <-time.After(lib.Live):
		return []string{"harness: router did not start"}, false
	}
	emit := func(i int, ms *msgState) bool {
		ms.emitted.Store(true)
		if c.GoChannel {
			return gc.Publish(fmt.Sprintf("t%d", i), ms.msg) == nil
		}
		_, ok := subs[i].Subs()[0].Emit(ms.msg, ms.tag, 0, lib.Live)
		return ok
	}
	// GoChannel copies messages: settlement of the original is not observable; track by handler progress only.
	// background traffic, settled before the shutdown starts
	for i := 0; i < c.Handlers; i++ {
		for k := 0; k < c.Background[i]; k++ {
			ms := w.add(fmt.Sprintf("bg-%d-%d", i, k), false)
			if !emit(i, ms) {
				return []string{"harness: router did not take a background message"}, false
			}
			if !lib.WaitUntil(lib.Live, func() bool { return ms.ended.Load() }) {
				return []string{"harness: background message not handled"}, false
			}
		}
	}
	time.Sleep(200 * time.Microsecond)
	// the subject message
	subject := w.add("subject", true)
	switch c.Point {
	case "none", "watcher-race":
	case "in-handler":
		go emit(c.SubjectOn, subject)
		select {
		case <-inHandler:
			held = true
		case <-time.After(lib.Live):
			return []string{"harness: subject message did not reach the handler"}, false
		}
	case "emit-in-close":
		subs[c.SubjectOn].OnClose = func(call int) {
			if call == 1 {
				// a message that is already on its way when Close is called
				subs[c.SubjectOn].Subs()[0].Emit(subject.msg, "subject", 0, 200*time.Millisecond)
				subject.emitted.Store(true)
			}
		}
		held = true
	default:
		park = ctl.Park(hookOf[c.Point], nil, 0)
		go emit(c.SubjectOn, subject)
		held = park.WaitReached(50 * time.Millisecond)
	}
	if c.Point == "watcher-race" {
		held = park.WaitReached(50 * time.Millisecond)
	}
	if c.SubEnds && held {
		for _, s := range subs {
			for _, sub := range s.Subs() {
				sub.End()
			}
		}
		// the receive loops end and the handlers deregister themselves; the subject invocation is still running
		for _, h := range handles {
			select {
			case <-h.Stopped():
			case <-time.After(200 * time.Millisecond):
			}
		}
		time.Sleep(time.Duration(c.ReleaseDelay) * time.Millisecond)
	}
	if c.ViaCtx {
		cancelRun()
		time.Sleep(time.Duration(c.ReleaseDelay) * 300 * time.Microsecond)
	}
	// concurrent Close callers
	results := make([]*closeRes, c.Callers)
	t0 := time.Now()
	for k := range results {
		r := &closeRes{done: make(chan struct{})}
		results[k] = r
		go func() {
			r.err = router.Close()
			r.snap = w.snapshot()
			for _, p := range pubs {
				if p != nil {
					r.pubClosed = append(r.pubClosed, p.CloseCalls())
				}
			}
			close(r.done)
		}()
	}
	switch c.ReleaseDelay {
	case 0:
		time.Sleep(100 * time.Microsecond)
	case 1:
		time.Sleep(time.Millisecond)
	case 2:
		time.Sleep(c.CloseTimeout / 3)
	}
	if park != nil {
		park.Release()
	}
	openGate()
	// every caller returns
	limit := c.CloseTimeout + lib.Live
	anyErr := false
	for k, r := range results {
		select {
		case <-r.done:
			if r.err != nil {
				anyErr = true
			}
		case <-time.After(limit):
			bad("liveness: Close caller %d did not return within CloseTimeout+%v", k, lib.Live)
			return viol, held
		}
	}
	closeTook := time.Since(t0)
	if c.PubBlocks && held && anyErr {
		// Close closes the publisher, the Publish call returns, the message is settled: nothing is left to wait for
		bad("liveness: the subject's Publish returns as soon as its publisher is closed, but Close returned an error after %v (CloseTimeout %v)", closeTook, c.CloseTimeout)
	}
	if c.Point == "in-handler" && c.HandlerDur == 3 && c.SlowDrain && held && closeTook > c.CloseTimeout+3*time.Second {
		// the subscriber's own Close() waits for its in-flight message here; Router.Close must not wait for that beyond its timeout
		bad("liveness: the handler outlives CloseTimeout (%v) by 6s and the Close callers returned only after %v: Close waited for more than its timeout", c.CloseTimeout, closeTook)
	}
	select {
	case <-runRet:
	case <-time.After(lib.Live):
		bad("liveness: Run did not return within %v after Close returned", lib.Live)
		return viol, held
	}
	if runErr != nil {
		bad("run: Run returned %v, want nil", runErr)
	}
	// window after the shutdown
	time.Sleep(50 * time.Millisecond)
	after := w.snapshot()
	if c.Point == "in-handler" && c.HandlerDur == 3 && held {
		if !anyErr {
			bad("timeout: the handler outlives CloseTimeout (%v) but every Close call returned nil after %v", c.CloseTimeout, closeTook)
		}
	}
	// "each of those is either handled to completion and settled ..., or never handled and never acked" - whatever Close returned
	if !c.GoChannel {
		for tag, a := range after {
			if a.acked && !a.started {
				bad("settle: message %s is acked although no handler invocation ever started for it (path point %s)", tag, c.Point)
			}
		}
	}
	// "closes every handler's ... publisher": also when Close gave up on the running invocations - not necessarily by the
	// moment Close returns its error (a deadline that has already passed returns at once, the receive loops close their
	// publishers when they end), but soon. (Only where the receive loops end on their own at Close: a subscriber that keeps
	// its channel open until its message is settled keeps the loop.)
	if anyErr && !c.SlowDrain && !c.GoChannel && !c.SubEnds && !c.ViaCtx {
		for pi, p := range pubs {
			if p != nil && !lib.WaitUntil(lib.Live, func() bool { return p.CloseCalls() > 0 }) {
				bad("close: publisher of handler %d was not closed within %v after Close had returned an error", pi, lib.Live)
			}
		}
	}
	if !anyErr {
		check := func(where string, snap map[string]sample) {
			for tag, s := range snap {
				if s.started && !s.ended {
					bad("%s: handler invocation for %s still in progress", where, tag)
				}
				if !c.GoChannel && s.started && s.ended && !s.acked && !s.nacked {
					bad("%s: message %s was handled but is not settled yet", where, tag)
				}
				a := after[tag]
				if !s.started && a.started {
					bad("%s: handler invocation for %s started afterwards", where, tag)
				}
				if !c.GoChannel && !s.acked && a.acked {
					bad("%s: message %s became acked afterwards", where, tag)
				}
			}
		}
		for k, r := range results {
			check(fmt.Sprintf("at the return of Close caller %d (nil)", k), r.snap)
			for pi, n := range r.pubClosed {
				if n == 0 {
					bad("close: publisher %d was not closed when Close returned nil", pi)
				}
			}
		}
		check("at the return of Run", runSnap)
	}
	// subscribers get closed (handlers whose subscription ended by itself are no longer handlers of the router when
	// Close runs: nothing is demanded about their subscribers)
	// (likewise handlers that were stopped through the Run context before Close ran: the router documents that it closes
	// subscribers "just when the entire router is closed" by Close, a handler ended by its context keeps its subscriber open)
	if c.SubEnds || c.ViaCtx {
	} else if !c.GoChannel {
		for i, s := range subs {
			if !lib.WaitUntil(lib.Live, func() bool { return s.CloseCalls() >= 1 }) {
				bad("close: subscriber of handler %d never got Close() (path point %s)", i, c.Point)
			}
		}
	} else {
		if err := gc.Publish("t0", message.NewMessage("late", nil)); err == nil {
			if !lib.WaitUntil(lib.Live, func() bool { return gc.Publish("t0", message.NewMessage("late", nil)) != nil }) {
				bad("close: the handlers' subscriber (GoChannel) was never closed")
			}
		}
	}
	// let late handlers (timeouts) finish before the next case
	lib.WaitUntil(4*c.CloseTimeout+time.Second, func() bool {
		for _, s := range w.snapshot() {
			if s.started && !s.ended {
				return false
			}
		}
		return true
	})
	return viol, held
}

func TestGracefulClose(t *testing.T) {
	rapid.Check(t, func(t *rapid.T) {
		c := genCase(t)
		v, held := runCase(c)
		if len(v) > 0 && strings.Contains(strings.Join(v, " "), "liveness:") {
			// re-confirm liveness failures once
			if v2, _ := runCase(c); len(v2) == 0 {
				v = nil
			}
		}
		if len(v) > 0 {
			path := lib.WriteReplay("TestGracefulClose", "C06", map[string]any{"property": "C06", "case": c, "violations": v})
			t.Fatalf("violation of C06 (%d):\n  %s\ncase: %s\nreplay: %s", len(v), strings.Join(v, "\n  "), c, path)
		}
		lib.Case(c.String(), held, "point:"+c.Point, fmt.Sprintf("held=%v", held), fmt.Sprintf("gochannel=%v", c.GoChannel), fmt.Sprintf("subscriptions-end-by-themselves=%v", c.SubEnds), fmt.Sprintf("stopped-through-run-context=%v", c.ViaCtx), fmt.Sprintf("publish-blocks-until-publisher-closed=%v", c.PubBlocks))
		if held {
			lib.Sample(map[string]any{"test": "GracefulClose", "case": c.String()})
		}
	})
}

// ---------- Close arrives while the router is still starting its handlers ----------

// "Close may be called repeatedly and concurrently, every call returns, and Run returns only after the close has completed":
// also when the first Close arrives while RunHandlers is between two handlers (signal handler plugins do that).
func TestCloseWhileStarting(t *testing.T) {
	rapid.Check(t, func(t *rapid.T) {
		n := rapid.IntRange(2, 4).Draw(t, "handlers")
		skip := rapid.IntRange(0, n-2).Draw(t, "closeAfterStarts")
		callers := rapid.IntRange(1, 4).Draw(t, "closeCallers")
		router, err := message.NewRouter(message.RouterConfig{CloseTimeout: time.Second}, watermill.NopLogger{})
		if err != nil {
			t.Fatalf("NewRouter: %v", err)
		}
		ctl := lib.Install()
		defer ctl.Uninstall()
		subs := make([]*lib.ScriptSub, n)
		var handled atomic.Int64
		for i := 0; i < n; i++ {
			subs[i] = lib.NewScriptSub("")
			router.AddNoPublisherHandler(fmt.Sprintf("h%d", i), "t", subs[i], func(*message.Message) error { handled.Add(1); return nil })
		}
		park := ctl.Park("router.runhandlers.started", nil, skip)
		runRet := make(chan error, 1)
		go func() { runRet <- router.Run(context.Background()) }()
		achieved := park.WaitReached(200 * time.Millisecond)
		closed := make(chan error, callers)
		for k := 0; k < callers; k++ {
			go func() { closed <- router.Close() }()
		}
		time.Sleep(time.Duration(rapid.IntRange(0, 3).Draw(t, "releaseDelayMs")) * time.Millisecond)
		park.Release()
		for k := 0; k < callers; k++ {
			select {
			case <-closed:
			case <-time.After(time.Second + lib.Live):
				t.Fatalf("violation: a Close() call that arrived while handlers were being started did not return within CloseTimeout+%v (forced=%v)", lib.Live, achieved)
			}
		}
		select {
		case err := <-runRet:
			if err != nil {
				// Run may legitimately report that start-up was interrupted; it must return
				_ = err
			}
		case <-time.After(lib.Live):
			t.Fatalf("violation: Run did not return within %v after Close() returned (forced=%v)", lib.Live, achieved)
		}
		// none will start afterwards
		before := handled.Load()
		for _, s := range subs {
			for _, sub := range s.Subs() {
				sub.Emit(message.NewMessage("late", nil), "late", 0, 5*time.Millisecond)
			}
		}
		time.Sleep(5 * time.Millisecond)
		if handled.Load() != before {
			t.Fatalf("violation: a handler invocation started after Close() and Run had returned")
		}
		lib.Case(fmt.Sprintf("close-while-starting|%d|%d|%d", n, skip, callers), achieved, "point:starting", fmt.Sprintf("held=%v", achieved))
		if achieved {
			lib.Sample(map[string]any{"test": "CloseWhileStarting", "handlers": n, "close_after_starts": skip + 1, "close_callers": callers})
		}
	})
}

// ---------- Close before Run ----------

// "returns nil only when no handler invocation is in progress and none will start afterwards": also for a router that is closed
// before it was run and run afterwards. A Close that returns an error promises nothing; one that returns nil does.
func TestCloseBeforeRun(t *testing.T) {
	rapid.Check(t, func(t *rapid.T) {
		n := rapid.IntRange(1, 3).Draw(t, "handlers")
		backlog := rapid.IntRange(1, 3).Draw(t, "messagesWaitingPerSubscriber")
		router, err := message.NewRouter(message.RouterConfig{CloseTimeout: 30 * time.Millisecond}, watermill.NopLogger{})
		if err != nil {
			t.Fatalf("NewRouter: %v", err)
		}
		var started atomic.Int64
		subs := make([]*lib.ScriptSub, n)
		for i := 0; i < n; i++ {
			subs[i] = lib.NewScriptSub("")
			subs[i].Buffer = backlog
			subs[i].Prefill = func(int) []*message.Message {
				var ms []*message.Message
				for k := 0; k < backlog; k++ {
					ms = append(ms, message.NewMessage("backlog", nil))
				}
				return ms
			}
			router.AddNoPublisherHandler(fmt.Sprintf("h%d", i), "t", subs[i], func(*message.Message) error { started.Add(1); return nil })
		}
		closeRet := make(chan error, 1)
		go func() { closeRet <- router.Close() }()
		var closeErr error
		select {
		case closeErr = <-closeRet:
		case <-time.After(lib.Live):
			t.Fatalf("violation: Close() of a router that was never run did not return within %v", lib.Live)
		}
		runRet := make(chan error, 1)
		ctx, cancel := context.WithCancel(context.Background())
		defer cancel()
		go func() { runRet <- router.Run(ctx) }()
		// a subscriber with a backlog: messages are there as soon as somebody subscribes
		deadline := time.Now().Add(20 * time.Millisecond)
		for time.Now().Before(deadline) {
			for _, s := range subs {
				for _, sub := range s.Subs() {
					sub.Emit(message.NewMessage("backlog", nil), "backlog", 0, time.Millisecond)
				}
			}
			time.Sleep(500 * time.Microsecond)
		}
		cancel()
		select {
		case <-runRet:
		case <-time.After(lib.Live):
			t.Fatalf("violation: Run() after Close() did not return within %v after its context was cancelled", lib.Live)
		}
		if closeErr == nil && started.Load() > 0 {
			t.Fatalf("violation: Close() returned nil, but %d handler invocations started after it had returned (Run was called after Close)", started.Load())
		}
		lib.Case(fmt.Sprintf("close-before-run|%d|%d|closeErr=%v", n, backlog, closeErr != nil), true, "point:before-run", fmt.Sprintf("close-returned-error=%v", closeErr != nil))
		lib.Sample(map[string]any{"test": "CloseBeforeRun", "handlers": n, "close_returned_error": closeErr != nil, "invocations_after_close": started.Load()})
	})
}

// ---------- Close after a start-up that failed ----------

// Run may fail while it starts (a Subscribe that fails, a plugin that reports an error): Run returns the error, and Close -
// the natural reaction - returns like any other Close call, for every caller, however far the start-up had come.
func TestCloseAfterFailedStartup(t *testing.T) {
	rapid.Check(t, func(t *rapid.T) {
		n := rapid.IntRange(1, 3).Draw(t, "handlers")
		failing := rapid.IntRange(0, n-1).Draw(t, "handlerWhoseSubscribeFails")
		viaPlugin := rapid.IntRange(0, 2).Draw(t, "startUpFailsInAPlugin") == 0
		callers := rapid.IntRange(1, 3).Draw(t, "closeCallers")
		router, err := message.NewRouter(message.RouterConfig{CloseTimeout: 50 * time.Millisecond}, watermill.NopLogger{})
		if err != nil {
			t.Fatalf("NewRouter: %v", err)
		}
		for i := 0; i < n; i++ {
			s := lib.NewScriptSub("")
			if i == failing && !viaPlugin {
				s.SubscribeErr = func(int, string) error { return fmt.Errorf("broker not reachable") }
			}
			router.AddNoPublisherHandler(fmt.Sprintf("h%d", i), "t", s, func(*message.Message) error { return nil })
		}
		if viaPlugin {
			router.AddPlugin(func(*message.Router) error { return fmt.Errorf("plugin cannot start") })
		}
		runRet := make(chan error, 1)
		go func() { runRet <- router.Run(context.Background()) }()
		select {
		case err := <-runRet:
			if err == nil {
				t.Fatalf("harness: Run returned nil although its start-up was made to fail")
			}
		case <-time.After(lib.Live):
			t.Fatalf("harness: Run did not return its start-up error within %v", lib.Live)
		}
		rets := make(chan error, callers)
		for c := 0; c < callers; c++ {
			go func() { rets <- router.Close() }()
		}
		for c := 0; c < callers; c++ {
			select {
			case <-rets:
			case <-time.After(lib.Live):
				t.Fatalf("violation: Close() after a failed start-up (%d handlers, failing: %s) did not return within %v for %d of %d callers (CloseTimeout 50ms)",
					n, map[bool]string{true: "plugin", false: fmt.Sprintf("Subscribe of handler %d", failing)}[viaPlugin], lib.Live, callers-c, callers)
			}
		}
		// and once more, afterwards
		again := make(chan error, 1)
		go func() { again <- router.Close() }()
		select {
		case <-again:
		case <-time.After(lib.Live):
			t.Fatalf("violation: a repeated Close() after a failed start-up did not return within %v", lib.Live)
		}
		lib.Case(fmt.Sprintf("close-after-failed-startup|%d|%d|%v|%d", n, failing, viaPlugin, callers), true, "point:failed-startup")
		lib.Sample(map[string]any{"test": "CloseAfterFailedStartup", "handlers": n, "failing_handler": failing, "via_plugin": viaPlugin, "close_callers": callers})
	})
}
