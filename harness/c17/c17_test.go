// C17 — Relay components (Forwarder, FanIn, FanOut, Requeuer) neither lose nor invent.
package c17

import (
	"context"
	stderrors "errors"
	"fmt"
	"strconv"
	"sync"
	"testing"
	"time"

	"github.com/ThreeDotsLabs/watermill"
	"github.com/ThreeDotsLabs/watermill/components/fanin"
	"github.com/ThreeDotsLabs/watermill/components/forwarder"
	"github.com/ThreeDotsLabs/watermill/components/requeuer"
	"github.com/ThreeDotsLabs/watermill/message"
	"github.com/ThreeDotsLabs/watermill/message/router/middleware"
	"github.com/ThreeDotsLabs/watermill/pubsub/gochannel"
	"github.com/ThreeDotsLabs/watermill/verifharness/lib"
	"pgregory.net/rapid"
)

func TestMain(m *testing.M) {
	lib.Extra("rule", "rapid-generated message streams (arbitrary UUID/metadata/payload; existing retries counters missing/garbage/0..10^9; malformed envelopes: not JSON, wrong JSON type, empty/missing destination) "+
		"relayed by Forwarder (through forwarder.Publisher), FanIn, Requeuer and FanOut between a scripted source subscriber (fresh-copy redelivery after Nack) and a scripted destination publisher with a failure script "+
		"(fail the k-th Publish), over the components' configurations (AckWhenCannotUnwrap, forwarder topic, source topic sets, topic generator from metadata, Delay incl. context cancellation during the delay). "+
		"Oracle per consumed delivery: destination Publish on the computed topic with equal UUID/payload/metadata (Requeuer: retries+1), source copy unsettled inside that Publish, Acked iff it returned nil, Nacked otherwise and relayed on redelivery; invalid envelopes never forwarded and settled per AckWhenCannotUnwrap; nothing published that was not consumed. "+
		"Non-trivial: a destination failure, a malformed envelope or a redelivery occurred.")
	lib.Extra("assumptions", []string{
		"the scripted source redelivers a fresh copy of the original after a Nack (what every real Pub/Sub does), at most a bounded number of times",
		"20 s liveness bound for settlement",
	})
	lib.Main(m)
}

var errDest = stderrors.New("destination failure")

type env struct {
	router  func() (running chan struct{}, run func(ctx context.Context) error, close func() error)
	cleanup func()
}

// destination with a failure script and in-call sampling of the current source delivery
type dest struct {
	*lib.ScriptPub
	mu       sync.Mutex
	failOn   map[int]bool
	current  *lib.Delivery
	inside   []string // per call: settlement of the source copy inside the call
	attempts int
}

func newDest(failOn map[int]bool) *dest {
	d := &dest{ScriptPub: lib.NewScriptPub(""), failOn: failOn}
	d.OnPublish = func(pc *lib.PubCall) error {
		d.mu.Lock()
		defer d.mu.Unlock()
		n := d.attempts
		d.attempts++
		st := "no-current"
		if d.current != nil {
			a, nk := d.current.State()
			st = fmt.Sprintf("acked=%v nacked=%v", a, nk)
		}
		d.inside = append(d.inside, st)
		if d.failOn[n] {
			return errDest
		}
		return nil
	}
	return d
}

func (d *dest) setCurrent(x *lib.Delivery) { d.mu.Lock(); d.current = x; d.mu.Unlock() }

func genFailScript(t *rapid.T, maxCalls int) map[int]bool {
	f := map[int]bool{}
	n := rapid.IntRange(0, 3).Draw(t, "destFailures")
	for i := 0; i < n; i++ {
		f[rapid.IntRange(0, maxCalls).Draw(t, "failOnCall")] = true
	}
	return f
}

// deliver emits fresh copies of snap until acked or the redelivery budget is used; returns deliveries.
func deliver(t *rapid.T, d *dest, sub *lib.Subscription, build func() *message.Message, budget int) (ds []*lib.Delivery, acked bool) {
	for try := 0; try <= budget; try++ {
		m := build()
		del := &lib.Delivery{Msg: m}
		d.setCurrent(del)
		del2, ok := sub.Emit(m, "", try, lib.Live)
		if !ok {
			t.Fatalf("harness: component did not take the message")
		}
		ds = append(ds, del2)
		a, settled := del2.Wait(2 * lib.Live)
		if !settled {
			t.Fatalf("violation: consumed message was never settled (delivery %d)", try)
		}
		if a {
			return ds, true
		}
	}
	return ds, false
}

func startRouterLike(t *rapid.T, running func() chan struct{}, run func(ctx context.Context) error) {
	go run(context.Background())
	select {
	case <-running():
	case <-time.After(lib.Live):
		t.Fatalf("harness: component did not start")
	}
}

func closeBounded(closeFn func() error) {
	done := make(chan struct{})
	go func() { closeFn(); close(done) }()
	select {
	case <-done:
	case <-time.After(lib.Live):
		lib.Count("close_slow", 1)
	}
}

// ---------- Forwarder ----------

var malformed = []string{"not json", "[]", `"str"`, `{"destination_topic": 5}`, `{}`, `{"destination_topic":"","uuid":"x"}`, "", `{"uuid":"u","payload":"cA=="}`, `null`}

func TestForwarder(t *testing.T) {
	rapid.Check(t, func(t *rapid.T) {
		ackBad := rapid.Bool().Draw(t, "ackWhenCannotUnwrap")
		fwdTopic := rapid.SampledFrom([]string{"", "custom_fwd"}).Draw(t, "forwarderTopic")
		n := rapid.IntRange(1, 5).Draw(t, "messages")
		d := newDest(genFailScript(t, n+2))
		src := lib.NewScriptSub("")
		fw, err := forwarder.NewForwarder(src, d, watermill.NopLogger{}, forwarder.Config{ForwarderTopic: fwdTopic, AckWhenCannotUnwrap: ackBad, CloseTimeout: 5 * time.Second})
		if err != nil {
			t.Fatalf("NewForwarder: %v", err)
		}
		startRouterLike(t, fw.Running, fw.Run)
		defer closeBounded(fw.Close)
		subs := src.Subs()
		wantTopic := fwdTopic
		if wantTopic == "" {
			wantTopic = "forwarder_topic"
		}
		if len(subs) != 1 || subs[0].Topic != wantTopic {
			t.Fatalf("violation: forwarder subscribed to %q, configured forwarder topic is %q", subs[0].Topic, wantTopic)
		}
		capture := lib.NewScriptPub("")
		fpub := forwarder.NewPublisher(capture, forwarder.PublisherConfig{ForwarderTopic: fwdTopic})
		interesting := false
		canon := fmt.Sprintf("fwd|%v|%q|%v|", ackBad, fwdTopic, d.failOn)
		expectDest := 0
		for i := 0; i < n; i++ {
			bad := rapid.IntRange(0, 3).Draw(t, "malformedEnvelope") == 0
			if bad {
				interesting = true
				payload := rapid.SampledFrom(malformed).Draw(t, "malformed")
				if rapid.IntRange(0, 2).Draw(t, "derivedFromValidEnvelope") == 0 {
					// a complete valid envelope followed by something else is not a valid envelope
					valid := `{"destination_topic":"dest","uuid":"u","payload":"cA==","metadata":{"a":"b"}}`
					payload = valid + rapid.SampledFrom([]string{"}", " trailing", valid, "\n{}", "]", "0"}).Draw(t, "trailing")
				}
				before := len(d.Calls())
				// (UUIDs of transport messages are not unique: producers without ids, small id spaces)
				badUUID := rapid.SampledFrom([]string{"bad", "", "transport-1"}).Draw(t, "transportUUID")
				ds, acked := deliver(t, d, subs[0], func() *message.Message { return message.NewMessage(badUUID, []byte(payload)) }, 1)
				if len(d.Calls()) != before {
					t.Fatalf("violation: invalid envelope %q was forwarded", payload)
				}
				if acked != ackBad {
					t.Fatalf("violation: invalid envelope %q acked=%v, AckWhenCannotUnwrap=%v", payload, acked, ackBad)
				}
				if !ackBad && len(ds) != 2 {
					t.Fatalf("harness: expected a redelivery")
				}
				canon += "bad:" + payload + ";"
				continue
			}
			s := lib.GenSnap().Draw(t, "msg")
			destTopic := rapid.SampledFrom([]string{"dest", "a/b", "é", " "}).Draw(t, "destTopic")
			before := len(capture.Calls())
			if err := fpub.Publish(destTopic, s.Msg()); err != nil {
				t.Fatalf("violation: forwarder.Publisher refused a valid message: %v", err)
			}
			cc := capture.Calls()[before:]
			if len(cc) != 1 || len(cc[0].Msgs) != 1 || cc[0].Topic != wantTopic {
				t.Fatalf("violation: forwarder.Publisher made %d publishes (topic %q), want 1 on %q", len(cc), cc[0].Topic, wantTopic)
			}
			envSnap := cc[0].Snaps[0]
			startCalls := len(d.Calls())
			// the envelope may pick up metadata of its own on the forwarder topic (broker headers, publisher decorators):
			// that is the envelope's, the relayed message is exactly what was wrapped
			outer := map[string]string{}
			for _, k := range rapid.SliceOfNDistinct(rapid.SampledFrom([]string{"x-broker-partition", "correlation_id", "a", ""}), 0, 2, rapid.ID[string]).Draw(t, "envelopeOwnMetadata") {
				outer[k] = "outer-" + k
			}
			if len(outer) > 0 {
				interesting = true
			}
			transportUUID := rapid.SampledFrom([]string{"<as published>", "<as published>", "bad", "", "transport-1"}).Draw(t, "transportUUID")
			ds, acked := deliver(t, d, subs[0], func() *message.Message {
				m := envSnap.Msg()
				if transportUUID != "<as published>" {
					m.UUID = transportUUID // the envelope's own id on the forwarder topic, not the id of the message inside
				}
				for k, v := range outer {
					m.Metadata[k] = v
				}
				return m
			}, 4)
			if !acked {
				t.Fatalf("violation: envelope still not relayed after %d deliveries although the destination stopped failing", len(ds))
			}
			calls := d.Calls()[startCalls:]
			if len(calls) != len(ds) {
				t.Fatalf("violation: %d destination publishes for %d deliveries of one envelope", len(calls), len(ds))
			}
			if len(ds) > 1 {
				interesting = true
			}
			for k, pc := range calls {
				if pc.Topic != destTopic {
					t.Fatalf("violation: relayed to topic %q, the message was published to %q", pc.Topic, destTopic)
				}
				if len(pc.Snaps) != 1 || !pc.Snaps[0].Equal(s) {
					t.Fatalf("violation: relayed message differs: sent %+v got %+v", s, pc.Snaps)
				}
				if d.inside[startCalls+k] != "acked=false nacked=false" {
					t.Fatalf("violation: consumed envelope already settled (%s) while the destination Publish was running", d.inside[startCalls+k])
				}
				wantAck := pc.Err == nil
				a, _ := ds[k].State()
				if a != wantAck {
					t.Fatalf("violation: destination returned %v but the consumed envelope acked=%v", pc.Err, a)
				}
			}
			expectDest += len(ds)
			canon += s.Canon() + "->" + destTopic + ";"
		}
		lib.Case(canon, interesting, "forwarder")
		if interesting {
			lib.Sample(map[string]any{"test": "Forwarder", "case": canon})
		}
	})
}

// ---------- FanIn ----------

func TestFanIn(t *testing.T) {
	rapid.Check(t, func(t *rapid.T) {
		nt := rapid.IntRange(1, 3).Draw(t, "sourceTopics")
		var topics []string
		for i := 0; i < nt; i++ {
			topics = append(topics, fmt.Sprintf("src%d", i))
		}
		n := rapid.IntRange(1, 5).Draw(t, "messages")
		d := newDest(genFailScript(t, n+2))
		src := lib.NewScriptSub("")
		fi, err := fanin.NewFanIn(src, d, fanin.Config{SourceTopics: topics, TargetTopic: "target", CloseTimeout: 5 * time.Second}, watermill.NopLogger{})
		if err != nil {
			t.Fatalf("NewFanIn: %v", err)
		}
		startRouterLike(t, fi.Running, fi.Run)
		defer closeBounded(fi.Close)
		subs := src.Subs()
		byTopic := map[string]*lib.Subscription{}
		for _, s := range subs {
			byTopic[s.Topic] = s
		}
		if len(subs) != nt || len(byTopic) != nt {
			t.Fatalf("violation: FanIn made %d subscriptions for %d source topics", len(subs), nt)
		}
		interesting := false
		canon := fmt.Sprintf("fanin|%d|%v|", nt, d.failOn)
		for i := 0; i < n; i++ {
			s := lib.GenSnap().Draw(t, "msg")
			tp := topics[rapid.IntRange(0, nt-1).Draw(t, "onTopic")]
			start := len(d.Calls())
			ds, acked := deliver(t, d, byTopic[tp], func() *message.Message { return s.Msg() }, 4)
			if !acked {
				t.Fatalf("violation: message not relayed after %d deliveries", len(ds))
			}
			calls := d.Calls()[start:]
			if len(calls) != len(ds) {
				t.Fatalf("violation: %d target publishes for %d deliveries", len(calls), len(ds))
			}
			if len(ds) > 1 {
				interesting = true
			}
			for k, pc := range calls {
				if pc.Topic != "target" || len(pc.Snaps) != 1 || !pc.Snaps[0].Equal(s) {
					t.Fatalf("violation: FanIn relayed %+v to %q, want %+v on target", pc.Snaps, pc.Topic, s)
				}
				if d.inside[start+k] != "acked=false nacked=false" {
					t.Fatalf("violation: consumed message already settled (%s) during the target Publish", d.inside[start+k])
				}
				if a, _ := ds[k].State(); a != (pc.Err == nil) {
					t.Fatalf("violation: target returned %v but consumed message acked=%v", pc.Err, a)
				}
			}
			canon += tp + ":" + s.Canon() + ";"
		}
		lib.Case(canon, interesting || nt > 1, "fanin")
		lib.Sample(map[string]any{"test": "FanIn", "case": canon})
	})
}

// ---------- Requeuer ----------

func TestRequeuer(t *testing.T) {
	rapid.Check(t, func(t *rapid.T) {
		n := rapid.IntRange(1, 4).Draw(t, "messages")
		d := newDest(genFailScript(t, n+2))
		src := lib.NewScriptSub("")
		delayMs := rapid.SampledFrom([]int{0, 0, 1, 3}).Draw(t, "delayMs")
		cancelMode := rapid.IntRange(0, 4).Draw(t, "cancelDuringDelay") == 0
		if cancelMode {
			delayMs = 400
		}
		router, err := message.NewRouter(message.RouterConfig{CloseTimeout: 5 * time.Second}, watermill.NopLogger{})
		if err != nil {
			t.Fatalf("NewRouter: %v", err)
		}
		rq, err := requeuer.NewRequeuer(requeuer.Config{
			Subscriber: src, SubscribeTopic: "poison", Publisher: d, Router: router,
			Delay: time.Duration(delayMs) * time.Millisecond,
			GeneratePublishTopic: func(p requeuer.GeneratePublishTopicParams) (string, error) {
				tp := p.Message.Metadata.Get("dest")
				if tp == "" {
					return "", stderrors.New("no destination in metadata")
				}
				if tp == "by-retries" {
					// a generator may look at anything in the consumed message, e.g. "after N requeues: dead letters"
					return "retries-so-far=" + p.Message.Metadata.Get(requeuer.RetriesKey), nil
				}
				return tp, nil
			},
		}, watermill.NopLogger{})
		if err != nil {
			t.Fatalf("NewRequeuer: %v", err)
		}
		startRouterLike(t, router.Running, rq.Run)
		defer closeBounded(router.Close)
		sub := src.Subs()[0]
		if sub.Topic != "poison" {
			t.Fatalf("violation: requeuer subscribed to %q", sub.Topic)
		}
		interesting := cancelMode
		canon := fmt.Sprintf("rq|%d|%v|%v|", delayMs, cancelMode, d.failOn)
		for i := 0; i < n; i++ {
			s := lib.GenSnap().Draw(t, "msg")
			retriesIn := rapid.SampledFrom([]string{"<missing>", "garbage", "0", "1", "7", "1000000000", "", "-3", "9223372036854775808", "99999999999999999999", "-99999999999999999999", "1e3", " 4"}).Draw(t, "retriesCounter")
			delete(s.Meta, requeuer.RetriesKey)
			if retriesIn != "<missing>" {
				s.Meta[requeuer.RetriesKey] = retriesIn
			}
			if rapid.IntRange(0, 2).Draw(t, "comesFromAPoisonQueue") == 0 {
				// what a requeuer usually reads: messages a PoisonQueue middleware put aside, with its notes. Metadata is metadata.
				s.Meta[middleware.ReasonForPoisonedKey] = "handler failed: " + lib.GenUTF8().Draw(t, "reason")
				s.Meta[middleware.PoisonedTopicKey] = "orders"
				if rapid.Bool().Draw(t, "allFourNotes") {
					s.Meta[middleware.PoisonedHandlerKey] = "orders-handler"
					s.Meta[middleware.PoisonedSubscriberKey] = "gochannel.GoChannel"
				}
			}
			hasDest := rapid.IntRange(0, 5).Draw(t, "hasDest") != 0
			delete(s.Meta, "dest")
			if hasDest {
				s.Meta["dest"] = rapid.SampledFrom([]string{"orders", "a/b", "poison", "by-retries"}).Draw(t, "dest") // the destination Pub/Sub is another system: its topic may be named like the one the requeuer reads
			}
			start := len(d.Calls())
			if cancelMode {
				// the message context ends while the requeuer waits for Delay: not relayed, must not be acked
				ctx, cancel := context.WithCancel(context.Background())
				m := s.Msg()
				m.SetContext(ctx)
				del := &lib.Delivery{Msg: m}
				d.setCurrent(del)
				del2, ok := sub.Emit(m, "", 0, lib.Live)
				if !ok {
					t.Fatalf("harness: requeuer did not take the message")
				}
				time.Sleep(2 * time.Millisecond)
				cancel()
				a, settled := del2.Wait(2 * lib.Live)
				if !settled {
					t.Fatalf("violation: consumed message never settled")
				}
				if len(d.Calls()) != start {
					continue // the delay elapsed first (very slow machine): normal relay, nothing to say
				}
				if a {
					t.Fatalf("violation: message acked although it was never relayed (context ended during Delay)")
				}
				canon += "cancel;"
				continue
			}
			wantRetries := 1
			if v, err := strconv.Atoi(retriesIn); err == nil {
				wantRetries = v + 1
			}
			ds, acked := deliver(t, d, sub, func() *message.Message { return s.Msg() }, 4)
			calls := d.Calls()[start:]
			if !hasDest {
				interesting = true
				if acked || len(calls) != 0 {
					t.Fatalf("violation: topic generator failed but acked=%v, publishes=%d", acked, len(calls))
				}
				canon += "nodest;"
				continue
			}
			if !acked {
				t.Fatalf("violation: message not requeued after %d deliveries", len(ds))
			}
			if len(calls) != len(ds) {
				t.Fatalf("violation: %d publishes for %d deliveries", len(calls), len(ds))
			}
			if len(ds) > 1 {
				interesting = true
			}
			want := lib.Snap{UUID: s.UUID, Payload: s.Payload, Meta: map[string]string{}}
			for k, v := range s.Meta {
				want.Meta[k] = v
			}
			want.Meta[requeuer.RetriesKey] = strconv.Itoa(wantRetries)
			for k, pc := range calls {
				wantTopic := s.Meta["dest"]
				if wantTopic == "by-retries" {
					wantTopic = "retries-so-far=" + s.Meta[requeuer.RetriesKey] // computed from the message as it was consumed
				}
				if pc.Topic != wantTopic {
					t.Fatalf("violation: requeued to %q, the generator computes %q from the consumed message", pc.Topic, wantTopic)
				}
				if len(pc.Snaps) != 1 || !pc.Snaps[0].Equal(want) {
					t.Fatalf("violation: requeued message differs (retries in=%q): got %+v want %+v", retriesIn, pc.Snaps, want)
				}
				if d.inside[start+k] != "acked=false nacked=false" {
					t.Fatalf("violation: consumed message already settled (%s) during Publish", d.inside[start+k])
				}
				if a, _ := ds[k].State(); a != (pc.Err == nil) {
					t.Fatalf("violation: destination returned %v but consumed message acked=%v", pc.Err, a)
				}
			}
			canon += retriesIn + ":" + s.Canon() + ";"
		}
		lib.Case(canon, interesting, "requeuer")
		if interesting {
			lib.Sample(map[string]any{"test": "Requeuer", "case": canon})
		}
	})
}

// ---------- FanOut ----------

func TestFanOut(t *testing.T) {
	rapid.Check(t, func(t *rapid.T) {
		src := lib.NewScriptSub("")
		fo, err := gochannel.NewFanOut(src, watermill.NopLogger{})
		if err != nil {
			t.Fatalf("NewFanOut: %v", err)
		}
		nt := rapid.IntRange(1, 2).Draw(t, "topics")
		var topics []string
		for i := 0; i < nt; i++ {
			topics = append(topics, fmt.Sprintf("t%d", i))
			fo.AddSubscription(topics[i])
			if rapid.Bool().Draw(t, "addTwice") {
				fo.AddSubscription(topics[i])
			}
		}
		startRouterLike(t, fo.Running, fo.Run)
		defer closeBounded(fo.Close)
		type subT struct {
			topic string
			ch    <-chan *message.Message
			got   []lib.Snap
		}
		var subs []*subT
		ns := rapid.IntRange(1, 4).Draw(t, "subscribers")
		ctx, cancel := context.WithCancel(context.Background())
		defer cancel()
		for i := 0; i < ns; i++ {
			tp := topics[rapid.IntRange(0, nt-1).Draw(t, "subTopic")]
			ch, err := fo.Subscribe(ctx, tp)
			if err != nil {
				t.Fatalf("Subscribe: %v", err)
			}
			subs = append(subs, &subT{topic: tp, ch: ch})
		}
		srcByTopic := map[string]*lib.Subscription{}
		for _, s := range src.Subs() {
			if _, dup := srcByTopic[s.Topic]; dup {
				t.Fatalf("violation: FanOut subscribed twice to %q", s.Topic)
			}
			srcByTopic[s.Topic] = s
		}
		if len(srcByTopic) != nt {
			t.Fatalf("violation: FanOut has %d source subscriptions for %d topics", len(srcByTopic), nt)
		}
		var wg sync.WaitGroup
		stop := make(chan struct{})
		var mu sync.Mutex
		for _, s := range subs {
			s := s
			wg.Add(1)
			go func() {
				defer wg.Done()
				for {
					select {
					case m, ok := <-s.ch:
						if !ok {
							return
						}
						mu.Lock()
						s.got = append(s.got, lib.SnapOf(m))
						mu.Unlock()
						m.Ack()
					case <-stop:
						return
					}
				}
			}()
		}
		n := rapid.IntRange(1, 5).Draw(t, "messages")
		sent := map[string][]lib.Snap{}
		prevUUID := ""
		canon := fmt.Sprintf("fanout|%d|%d|", nt, ns)
		for i := 0; i < n; i++ {
			s := lib.GenSnap().Draw(t, "msg")
			// UUIDs are not unique in general (they are "only used for debugging"): a message may carry the UUID of
			// the one before it; the index travels in the payload so that the two stay distinguishable for the oracle
			s.UUID = fmt.Sprintf("m%d-%s", i, s.UUID)
			if i > 0 && rapid.IntRange(0, 2).Draw(t, "sameUUIDAsThePreviousMessage") == 0 {
				s.UUID = prevUUID
			}
			prevUUID = s.UUID
			s.Payload = append([]byte(fmt.Sprintf("#%d:", i)), s.Payload...)
			tp := topics[rapid.IntRange(0, nt-1).Draw(t, "onTopic")]
			d, ok := srcByTopic[tp].Emit(s.Msg(), "", 0, lib.Live)
			if !ok {
				t.Fatalf("harness: FanOut did not take the message")
			}
			if a, settled := d.Wait(2 * lib.Live); !settled || !a {
				t.Fatalf("violation: source message not acked by FanOut (settled=%v acked=%v)", settled, a)
			}
			sent[tp] = append(sent[tp], s)
			canon += tp + ":" + s.Canon() + ";"
		}
		for _, s := range subs {
			want := sent[s.topic]
			ok := lib.WaitUntil(lib.Live, func() bool { mu.Lock(); defer mu.Unlock(); return len(s.got) >= len(want) })
			time.Sleep(time.Millisecond)
			mu.Lock()
			got := append([]lib.Snap(nil), s.got...)
			mu.Unlock()
			if !ok || len(got) != len(want) {
				t.Fatalf("violation: subscriber of %s received %d messages, %d were fanned out to that topic", s.topic, len(got), len(want))
			}
			// no order is promised by the internal GoChannel: compare as multisets
			cnt := map[string]int{}
			for _, w := range want {
				cnt[w.Canon()]++
			}
			for _, g := range got {
				cnt[g.Canon()]--
			}
			for k, v := range cnt {
				if v != 0 {
					t.Fatalf("violation: subscriber of %s: message %s lost, duplicated or altered (balance %d): got %+v want %+v", s.topic, k, v, got, want)
				}
			}
		}
		close(stop)
		wg.Wait()
		lib.Case(canon, ns >= 2, "fanout")
		lib.Sample(map[string]any{"test": "FanOut", "case": canon})
	})
}

// forwarder.Publisher used from several goroutines: every call must hand exactly its own messages,
// enveloped, to the wrapped publisher.
func TestForwarderPublisherConcurrent(t *testing.T) {
	rapid.Check(t, func(t *rapid.T) {
		ng := rapid.IntRange(2, 8).Draw(t, "goroutines")
		rounds := rapid.IntRange(1, 4).Draw(t, "callsEach")
		latencyUs := rapid.SampledFrom([]int{0, 50, 300}).Draw(t, "transportLatencyUs")
		capture := lib.NewScriptPub("")
		capture.OnPublish = func(*lib.PubCall) error {
			if latencyUs > 0 {
				time.Sleep(time.Duration(latencyUs) * time.Microsecond)
			}
			return nil
		}
		fpub := forwarder.NewPublisher(capture, forwarder.PublisherConfig{})
		// warm-up call (gives any reused buffer a capacity)
		if err := fpub.Publish("warm", message.NewMessage("warm", nil), message.NewMessage("warm2", nil)); err != nil {
			t.Fatalf("warm-up publish failed: %v", err)
		}
		sizes := make([][]int, ng)
		for g := range sizes {
			for r := 0; r < rounds; r++ {
				sizes[g] = append(sizes[g], rapid.IntRange(1, 3).Draw(t, "batch"))
			}
		}
		var wg sync.WaitGroup
		start := make(chan struct{})
		errs := make(chan error, ng*rounds)
		for g := 0; g < ng; g++ {
			wg.Add(1)
			go func(g int) {
				defer wg.Done()
				<-start
				for r, n := range sizes[g] {
					var batch []*message.Message
					for i := 0; i < n; i++ {
						batch = append(batch, message.NewMessage(fmt.Sprintf("g%d-r%d-m%d", g, r, i), []byte("x")))
					}
					if err := fpub.Publish(fmt.Sprintf("dest-g%d", g), batch...); err != nil {
						errs <- err
					}
				}
			}(g)
		}
		close(start)
		wg.Wait()
		select {
		case err := <-errs:
			t.Fatalf("violation: concurrent Publish failed: %v", err)
		default:
		}
		got := map[string]int{}
		for _, pc := range capture.Calls()[1:] {
			var g0 = -1
			for _, env := range pc.Snaps {
				topic, m, err := forwarder.VerifUnwrapMessageFromEnvelope(env.Msg())
				if err != nil {
					t.Fatalf("violation: forwarder.Publisher handed over something that is not an envelope: %v", err)
				}
				var g, r, i int
				fmt.Sscanf(m.UUID, "g%d-r%d-m%d", &g, &r, &i)
				if topic != fmt.Sprintf("dest-g%d", g) {
					t.Fatalf("violation: message %s was enveloped for topic %q", m.UUID, topic)
				}
				if g0 >= 0 && g != g0 {
					t.Fatalf("violation: one Publish call of the wrapped publisher mixes messages of two callers")
				}
				g0 = g
				got[m.UUID]++
			}
		}
		for g := range sizes {
			for r, n := range sizes[g] {
				for i := 0; i < n; i++ {
					id := fmt.Sprintf("g%d-r%d-m%d", g, r, i)
					if got[id] != 1 {
						t.Fatalf("violation: message %s published through forwarder.Publisher reached the forwarder topic %d times (concurrent callers: %d)", id, got[id], ng)
					}
				}
			}
		}
		lib.Case(fmt.Sprintf("fwdpubconc|%d|%v|%d", ng, sizes, latencyUs), true, "forwarder-publisher-concurrent")
		lib.Sample(map[string]any{"test": "ForwarderPublisherConcurrent", "goroutines": ng, "batches": sizes})
	})
}
