// Package gcprog generates and runs concurrent programs against a real GoChannel and records
// the history that the C04 / C05 / C11 (and C07) invariants are evaluated on.
package gcprog

import (
	"context"
	"fmt"
	"runtime"
	"sort"
	"strings"
	"sync"
	"time"

	"github.com/ThreeDotsLabs/watermill"
	"github.com/ThreeDotsLabs/watermill/message"
	"github.com/ThreeDotsLabs/watermill/pubsub/gochannel"
	"github.com/ThreeDotsLabs/watermill/verifharness/lib"
	"pgregory.net/rapid"
)

// ---------- program ----------

type BehavKind int

const (
	BAck BehavKind = iota
	BNackThenAck
	BDelayAck
	BMutateAck
	BMutateNackThenAck
	BHold
	BPublishSideThenAck
	BCancelHolding           // cancel the own Subscribe context while this message is unsettled; never settle it
	BNackThenAckSameDelivery // first delivery: Nack() and then Ack() on the same copy (the Nack wins); redelivery: Ack
)

var behavNames = []string{"ack", "nack-then-ack", "delay-ack", "mutate-ack", "mutate-nack-then-ack", "hold", "publish-side-then-ack", "cancel-holding", "nack-then-ack-same-delivery"}

type Behav struct {
	Kind BehavKind
	K    int // nacks (BNackThenAck), delay in 100µs units (BDelayAck), hold window in 100µs units (BHold)
}

func (b Behav) String() string { return fmt.Sprintf("%s(%d)", behavNames[b.Kind], b.K) }

type PubCall struct {
	Topic int
	N     int // batch size
	Pad   int // Gosched before the call
}

type Publisher struct {
	Calls       []PubCall
	StartOnPark bool // start when the forced park was reached
}

type SubSpec struct {
	Topic       int
	When        int // 0 before all publishing, 1 concurrently with the publishers, 2 after call AfterCall of publisher AfterPub returned, 3 when the forced park was reached
	AfterPub    int
	AfterCall   int
	Behav       map[string]Behav // by message id (only ids of its topic)
	CancelAfter int              // cancel own ctx after this many receipts (0 = never)
	Side        bool             // subscription of the side topic (acks at once)
}

type Forced struct {
	Point string
	Skip  int
}

type Prog struct {
	Buffer     int
	Persistent bool
	Blocking   bool
	NTopics    int
	TopicNames []string // NTopics+NSide distinct names (the last NSide are the side topics)
	NSide      int
	Pubs       []Publisher
	Subs       []SubSpec
	Noise      []uint8
	Procs      int
	Forced     *Forced
	Excluded   int // combinations removed by construction because they match a known finding
	// C07: subscriptions go through Depth MessageTransform subscriber decorators, and Close is called
	// (on the outermost decorator) as soon as EarlyClose Publish calls have returned.
	Depth        int
	EarlyCloseOn bool
	EarlyClose   int
}

func MsgID(p, c, i int) string { return fmt.Sprintf("p%dc%dm%d", p, c, i) }

// topicSpelling: 64 distinct topic names. A topic name is an opaque string: names that differ only in case, in surrounding
// white space or in a trailing separator are different topics (the first sixteen are such near-twins of each other).
func topicSpelling(k int) string {
	twins := []string{"orders", "Orders", "ORDERS", "orders ", " orders", "orders\n", "\torders", "orders/", "orders.", "order", "orders#", "", " ", "ordérs", "orders\x00", "o"}
	if k < len(twins) {
		return twins[k]
	}
	return fmt.Sprintf("topic-%d", k)
}

// topic names come from a generated pool (Prog.TopicNames; index NTopics = the side topic)
func (p Prog) topicName(i int) string {
	if i >= 0 && i < len(p.TopicNames) {
		return p.TopicNames[i]
	}
	return fmt.Sprintf("t%d", i)
}

// side topics: NSide names after the NTopics main ones; a nested publish picks one by message id
func (p Prog) nSide() int {
	if p.NSide < 1 {
		return 1
	}
	return p.NSide
}

func (p Prog) sideTopicOf(id string) string {
	h := 0
	for i := 0; i < len(id); i++ {
		h = h*31 + int(id[i])
	}
	if h < 0 {
		h = -h
	}
	return p.topicName(p.NTopics + h%p.nSide())
}

// Opts biases the generator for the property under test.
type Opts struct {
	ForcePersistent *bool
	ForceBlocking   *bool
	AlwaysAck       bool // subscribers never nack / hold / mutate (C11 exactly-once)
	HoldBias        bool // more hold / delay behaviours (C05)
	AllowForced     bool
	NoCancel        bool
}

func Bool(b bool) *bool { return &b }

// Gen draws a program.
func Gen(t *rapid.T, o Opts) Prog {
	p := Prog{
		Buffer:     rapid.IntRange(0, 4).Draw(t, "outputChannelBuffer"),
		Persistent: rapid.Bool().Draw(t, "persistent"),
		Blocking:   rapid.IntRange(0, 2).Draw(t, "blockPublishUntilSubscriberAck") == 0,
		NTopics:    rapid.IntRange(1, 3).Draw(t, "topics"),
		Procs:      rapid.SampledFrom([]int{1, 2, 4, 16}).Draw(t, "gomaxprocs"),
	}
	// distinct topic names from a pool of 64 (implementations that shard or hash topics must not couple them)
	seen := map[int]bool{}
	p.NSide = 6
	for len(p.TopicNames) < p.NTopics+p.NSide {
		k := rapid.IntRange(0, 63).Draw(t, "topicName")
		if seen[k] {
			k = (k + len(p.TopicNames)*17 + 1) % 64
			for seen[k] {
				k = (k + 1) % 64
			}
		}
		seen[k] = true
		p.TopicNames = append(p.TopicNames, topicSpelling(k))
	}
	if o.ForcePersistent != nil {
		p.Persistent = *o.ForcePersistent
	}
	if o.ForceBlocking != nil {
		p.Blocking = *o.ForceBlocking
	}
	np := rapid.IntRange(1, 4).Draw(t, "publishers")
	idsByTopic := map[int][]string{}
	for pi := 0; pi < np; pi++ {
		var pub Publisher
		nc := rapid.IntRange(1, 4).Draw(t, "publishCalls")
		for c := 0; c < nc; c++ {
			pc := PubCall{Topic: rapid.IntRange(0, p.NTopics-1).Draw(t, "topic"), N: rapid.IntRange(1, 3).Draw(t, "batch"), Pad: rapid.IntRange(0, 3).Draw(t, "pad")}
			for i := 0; i < pc.N; i++ {
				idsByTopic[pc.Topic] = append(idsByTopic[pc.Topic], MsgID(pi, c, i))
			}
			pub.Calls = append(pub.Calls, pc)
		}
		p.Pubs = append(p.Pubs, pub)
	}
	ns := rapid.IntRange(1, 5).Draw(t, "subscriptions")
	hasSidePublisher := false
	allowSide := !o.AlwaysAck && rapid.IntRange(0, 2).Draw(t, "subscribersMayPublishBeforeAck") == 0
	for si := 0; si < ns; si++ {
		s := SubSpec{Topic: rapid.IntRange(0, p.NTopics-1).Draw(t, "subTopic"), Behav: map[string]Behav{}}
		s.When = rapid.SampledFrom([]int{0, 0, 1, 1, 2}).Draw(t, "subscribeWhen")
		if s.When == 2 {
			s.AfterPub = rapid.IntRange(0, np-1).Draw(t, "afterPublisher")
			s.AfterCall = rapid.IntRange(0, len(p.Pubs[s.AfterPub].Calls)-1).Draw(t, "afterCall")
		}
		for _, id := range idsByTopic[s.Topic] {
			s.Behav[id] = genBehav(t, o)
			if s.Behav[id].Kind == BPublishSideThenAck {
				if allowSide {
					hasSidePublisher = true
				} else {
					s.Behav[id] = Behav{Kind: BAck}
				}
			}
		}
		if !o.NoCancel && !o.AlwaysAck && rapid.IntRange(0, 5).Draw(t, "cancels") == 0 {
			s.CancelAfter = rapid.IntRange(1, 3).Draw(t, "cancelAfterReceipts")
		}
		p.Subs = append(p.Subs, s)
	}
	if hasSidePublisher && rapid.Bool().Draw(t, "sideSubscriber") {
		// some of the side topics have a subscriber (acks at once, never publishes)
		for k := 0; k < p.NSide; k++ {
			if rapid.Bool().Draw(t, "sideTopicHasSubscriber") {
				p.Subs = append(p.Subs, SubSpec{Topic: k, Side: true, When: 0, Behav: map[string]Behav{}})
			}
		}
	}
	if o.AllowForced && rapid.IntRange(0, 2).Draw(t, "forcedOverlap") == 0 {
		f := &Forced{}
		if p.Persistent {
			f.Point = rapid.SampledFrom([]string{"gochannel.publish.persisted", "gochannel.publish.locked", "gochannel.publish.after_closed_check", "gochannel.subscribe.replay", "gochannel.subscribe.registered", "gochannel.subscribe.locked"}).Draw(t, "parkPoint")
		} else {
			f.Point = rapid.SampledFrom([]string{"gochannel.publish.locked", "gochannel.publish.after_closed_check", "gochannel.subscribe.locked", "gochannel.send.before_chan"}).Draw(t, "parkPoint")
		}
		f.Skip = rapid.IntRange(0, 2).Draw(t, "parkSkip")
		p.Forced = f
		// the counterpart operation starts when the park is reached
		if strings.Contains(f.Point, "publish") || strings.Contains(f.Point, "send") {
			i := rapid.IntRange(0, len(p.Subs)-1).Draw(t, "overlappingSubscribe")
			if !p.Subs[i].Side {
				p.Subs[i].When = 3
			}
		} else {
			i := rapid.IntRange(0, np-1).Draw(t, "overlappingPublisher")
			p.Pubs[i].StartOnPark = true
			// make sure some Subscribe can hit the point while publishers wait
			any := false
			for _, s := range p.Subs {
				if s.When == 1 {
					any = true
				}
			}
			if !any {
				p.Subs[0].When = 1
			}
		}
	}
	// known finding F8 (C05-F1): blocking mode + a subscriber that publishes before acking + anything that takes the
	// subscribers write lock meanwhile (Subscribe, cancel) deadlocks. Excluded by construction, counted.
	if p.Blocking && hasSidePublisher {
		for i := range p.Subs {
			if p.Subs[i].When != 0 {
				p.Subs[i].When = 0
				p.Excluded++
			}
			if p.Subs[i].CancelAfter != 0 {
				p.Subs[i].CancelAfter = 0
				p.Excluded++
			}
			for id, b := range p.Subs[i].Behav {
				if b.Kind == BCancelHolding {
					p.Subs[i].Behav[id] = Behav{Kind: BAck}
					p.Excluded++
				}
			}
		}
		if p.Forced != nil {
			p.Forced = nil
			p.Excluded++
			for i := range p.Pubs {
				p.Pubs[i].StartOnPark = false
			}
		}
	}
	p.Noise = rapid.SliceOfN(rapid.Uint8Range(0, 6), 0, 16).Draw(t, "noise")
	return p
}

func genBehav(t *rapid.T, o Opts) Behav {
	if o.AlwaysAck {
		if rapid.IntRange(0, 3).Draw(t, "slowAck") == 0 {
			return Behav{BDelayAck, rapid.IntRange(1, 10).Draw(t, "delay")}
		}
		return Behav{Kind: BAck}
	}
	kinds := []BehavKind{BAck, BAck, BNackThenAck, BDelayAck, BMutateAck, BMutateNackThenAck, BHold, BPublishSideThenAck, BNackThenAckSameDelivery}
	if o.HoldBias {
		kinds = append(kinds, BHold, BHold, BDelayAck, BNackThenAck)
	}
	if !o.NoCancel && rapid.IntRange(0, 9).Draw(t, "cancelHolding") == 0 {
		return Behav{Kind: BCancelHolding}
	}
	b := Behav{Kind: rapid.SampledFrom(kinds).Draw(t, "behaviour")}
	switch b.Kind {
	case BNackThenAck:
		b.K = rapid.IntRange(1, 3).Draw(t, "nacks")
	case BDelayAck:
		b.K = rapid.IntRange(1, 10).Draw(t, "delay")
	case BHold:
		b.K = rapid.IntRange(5, 30).Draw(t, "holdWindow")
	}
	return b
}

// Cancels reports whether the subscription may cancel its own context during the program.
func (s SubSpec) Cancels() bool {
	if s.CancelAfter != 0 {
		return true
	}
	for _, b := range s.Behav {
		if b.Kind == BCancelHolding {
			return true
		}
	}
	return false
}

// Canon returns a canonical encoding of the program.
func (p Prog) Canon() string {
	var b strings.Builder
	fmt.Fprintf(&b, "buf=%d pers=%v block=%v topics=%v|", p.Buffer, p.Persistent, p.Blocking, p.TopicNames)
	for _, pub := range p.Pubs {
		fmt.Fprintf(&b, "P%v[", pub.StartOnPark)
		for _, c := range pub.Calls {
			fmt.Fprintf(&b, "%d:%d,", c.Topic, c.N)
		}
		b.WriteString("]")
	}
	for _, s := range p.Subs {
		fmt.Fprintf(&b, "S(%d,%d,%d.%d,c%d,%v){", s.Topic, s.When, s.AfterPub, s.AfterCall, s.CancelAfter, s.Side)
		ids := make([]string, 0, len(s.Behav))
		for id := range s.Behav {
			ids = append(ids, id)
		}
		sort.Strings(ids)
		for _, id := range ids {
			fmt.Fprintf(&b, "%s=%s,", id, s.Behav[id])
		}
		b.WriteString("}")
	}
	if p.Forced != nil {
		fmt.Fprintf(&b, "F(%s,%d)", p.Forced.Point, p.Forced.Skip)
	}
	return b.String()
}

// ---------- history ----------

type Receipt struct {
	Sub         int
	ID          string
	Msg         *message.Message
	Snap        lib.Snap
	T           int64 // logical time of the receive
	CtxErr      string
	Marker      any
	SettleT     int64 // logical time just before Ack/Nack was called (0 = never settled)
	Acked       bool
	CtxDone     bool // context observed Done after the Ack
	WhileHold   bool // arrived while the previous message of this subscription was still unsettled
	SubCtxDone  bool // the Subscribe context was already cancelled at receipt
	AfterCancel bool // received after this subscription cancelled its own context (leftovers: outside the properties)
	AfterClose  bool // received after the runner started closing the Pub/Sub
}

type PubRec struct {
	Pub, Call int
	Topic     string
	IDs       []string
	Originals []*message.Message
	Pre       []string // settlement of each original at Publish time (a forwarded message was settled by its consumer before)
	Snaps     []lib.Snap
	StartT    int64
	EndT      int64
	Err       error
	Returned  bool
}

type SubRec struct {
	Index    int
	Topic    string
	StartT   int64
	EndT     int64
	Err      error
	CancelT  int64 // logical time of the cancel (0 = never)
	ClosedT  int64 // logical time the goroutine saw the channel closed
	Ch       <-chan *message.Message
	Ctx      context.Context
	Started  bool
	Receipts []*Receipt
}

type History struct {
	Prog        Prog
	Pubs        []*PubRec
	Subs        []*SubRec
	SideRecv    int
	SidePub     int
	SidePubs    []*SidePubRec
	ParkReached bool
	ParkWanted  bool
	closing     bool
	// C07 observations
	ClosedWhileBusy  bool
	PostPublishErr   error
	PostSubscribeErr error
	PostChecked      bool
	LeakedGoroutines int
	LeakSample       string
	Problems         []string // liveness problems detected by the runner itself
	CloseErr         error
	GC               *gochannel.GoChannel
	mu               sync.Mutex
}

type markerKey struct{}

// Run executes the program and returns its history. It never calls t.
func Run(p Prog) *History {
	defer runtime.GOMAXPROCS(runtime.GOMAXPROCS(0))
	runtime.GOMAXPROCS(p.Procs)
	h := &History{Prog: p}
	g := gochannel.NewGoChannel(gochannel.Config{
		OutputChannelBuffer:            int64(p.Buffer),
		Persistent:                     p.Persistent,
		BlockPublishUntilSubscriberAck: p.Blocking,
	}, watermill.NopLogger{})
	h.GC = g
	var sub message.Subscriber = g
	// one decorator value applied Depth times (a Router applies one decorator value to every handler's subscriber)
	dec := message.MessageTransformSubscriberDecorator(func(*message.Message) {})
	for i := 0; i < p.Depth; i++ {
		sub, _ = dec(sub)
	}
	ctl := lib.Install()
	defer ctl.Uninstall()
	ctl.Noise(p.Noise)
	var park *lib.Parked
	parkGate := make(chan struct{})
	if p.Forced != nil {
		h.ParkWanted = true
		var owner any = g
		if strings.Contains(p.Forced.Point, ".send.") {
			owner = nil
		}
		park = ctl.Park(p.Forced.Point, owner, p.Forced.Skip)
		go func() {
			if park.WaitReached(60 * time.Millisecond) {
				h.mu.Lock()
				h.ParkReached = true
				h.mu.Unlock()
			}
			close(parkGate)
			// give the counterpart a moment to run into the locks, then release
			time.Sleep(3 * time.Millisecond)
			park.Release()
		}()
	} else {
		close(parkGate)
	}

	h.Subs = make([]*SubRec, len(p.Subs))
	for i, s := range p.Subs {
		tn := p.topicName(s.Topic)
		if s.Side {
			tn = p.topicName(p.NTopics + s.Topic)
		}
		h.Subs[i] = &SubRec{Index: i, Topic: tn}
	}
	var subWG sync.WaitGroup
	cancels := make([]context.CancelFunc, len(p.Subs))
	startSub := func(i int) {
		sr := h.Subs[i]
		ctx, cancel := context.WithCancel(context.WithValue(context.Background(), markerKey{}, i))
		cancels[i] = cancel
		sr.Ctx = ctx
		sr.StartT = lib.Tick()
		ch, err := sub.Subscribe(ctx, sr.Topic)
		h.mu.Lock()
		sr.EndT = lib.Tick()
		sr.Err, sr.Ch, sr.Started = err, ch, true
		h.mu.Unlock()
		if err != nil {
			return
		}
		subWG.Add(1)
		go func() {
			defer subWG.Done()
			h.consume(g, i, ch, cancel)
		}()
	}
	// publishers
	for pi, pub := range p.Pubs {
		for c, pc := range pub.Calls {
			pr := &PubRec{Pub: pi, Call: c, Topic: p.topicName(pc.Topic)}
			for i := 0; i < pc.N; i++ {
				id := MsgID(pi, c, i)
				// the id travels in the payload; UUIDs are "only used for debugging" and may be empty or repeated
				uuid := id
				switch (pi*7 + c*3 + i) % 5 {
				case 1:
					uuid = ""
				case 3:
					uuid = "same-uuid"
				}
				m := message.NewMessage(uuid, []byte("payload-"+id))
				// every third message carries no metadata at all (the id travels in the UUID)
				if (pi+c+i)%3 != 0 {
					// direct map assignment: the harness must not depend on Metadata.Set
					m.Metadata["k"] = fmt.Sprintf("v%d", i)
					if (pi+c+i)%2 == 1 {
						m.Metadata["empty"] = ""
					}
				}
				// published messages often carry a context of their own (the Router publishes messages that carry the
				// consuming handler's context; that context is usually over soon after Publish, or already): nothing of it
				// may reach the deliveries
				switch (pi + 2*c + i) % 4 {
				case 1:
					m.SetContext(context.WithValue(context.Background(), markerKey{}, "publisher's context of "+id))
				case 2:
					pctx, pcancel := context.WithCancel(context.WithValue(context.Background(), markerKey{}, "publisher's cancelled context of "+id))
					pcancel()
					m.SetContext(pctx)
				}
				// a message that is forwarded after it was consumed elsewhere has been settled already: the deliveries are
				// copies with a life of their own
				switch (3*pi + c + 2*i) % 7 {
				case 2:
					m.Ack()
				case 5:
					m.Nack()
				}
				a, n := lib.Settled(m)
				pr.Pre = append(pr.Pre, fmt.Sprintf("acked=%v nacked=%v", a, n))
				pr.IDs = append(pr.IDs, id)
				pr.Originals = append(pr.Originals, m)
				pr.Snaps = append(pr.Snaps, lib.SnapOf(m))
			}
			h.Pubs = append(h.Pubs, pr)
		}
	}
	pubRec := func(pi, c int) *PubRec {
		for _, pr := range h.Pubs {
			if pr.Pub == pi && pr.Call == c {
				return pr
			}
		}
		return nil
	}
	// "before" subscriptions
	for i, s := range p.Subs {
		if s.When == 0 {
			startSub(i)
		}
	}
	afterHooks := map[[2]int][]int{}
	for i, s := range p.Subs {
		if s.When == 2 {
			k := [2]int{s.AfterPub, s.AfterCall}
			afterHooks[k] = append(afterHooks[k], i)
		}
	}
	var wg sync.WaitGroup
	startGate := make(chan struct{})
	for i, s := range p.Subs {
		if s.When == 1 || s.When == 3 {
			wg.Add(1)
			go func(i int, when int) {
				defer wg.Done()
				<-startGate
				if when == 3 {
					<-parkGate
				}
				startSub(i)
			}(i, s.When)
		}
	}
	for pi, pub := range p.Pubs {
		wg.Add(1)
		go func(pi int, pub Publisher) {
			defer wg.Done()
			<-startGate
			if pub.StartOnPark {
				<-parkGate
			}
			for c, pc := range pub.Calls {
				for k := 0; k < pc.Pad; k++ {
					runtime.Gosched()
				}
				pr := pubRec(pi, c)
				h.mu.Lock()
				pr.StartT = lib.Tick()
				h.mu.Unlock()
				err := g.Publish(pr.Topic, pr.Originals...)
				h.mu.Lock()
				pr.EndT = lib.Tick()
				pr.Err, pr.Returned = err, true
				h.mu.Unlock()
				for _, si := range afterHooks[[2]int{pi, c}] {
					startSub(si)
				}
			}
		}(pi, pub)
	}
	closed := make(chan error, 1)
	closeOnce := sync.Once{}
	startClose := func() {
		closeOnce.Do(func() {
			h.mu.Lock()
			h.closing = true
			for _, pr := range h.Pubs {
				if !pr.Returned {
					h.ClosedWhileBusy = true
				}
			}
			h.mu.Unlock()
			go func() { closed <- sub.Close() }()
		})
	}
	if p.EarlyCloseOn {
		go func() {
			lib.WaitUntil(2*lib.Live, func() bool {
				h.mu.Lock()
				defer h.mu.Unlock()
				n := 0
				for _, pr := range h.Pubs {
					if pr.Returned {
						n++
					}
				}
				return n >= p.EarlyClose
			})
			startClose()
		}()
	}
	close(startGate)
	done := make(chan struct{})
	go func() { wg.Wait(); close(done) }()
	select {
	case <-done:
	case <-time.After(2 * lib.Live):
		h.problem("liveness: publishers/subscribe calls did not all return within %v:\n%s", 2*lib.Live, h.pending())
		if park != nil {
			park.Release()
		}
		return h
	}
	// wait until every mandatory delivery happened
	if !p.EarlyCloseOn {
		if !lib.WaitUntil(lib.Live, func() bool { return len(h.Missing()) == 0 }) {
			// re-confirm once with a doubled bound before calling it a loss
			if !lib.WaitUntil(2*lib.Live, func() bool { return len(h.Missing()) == 0 }) {
				h.problem("loss: %v", h.Missing())
			}
		}
		time.Sleep(300 * time.Microsecond)
	}
	startClose()
	select {
	case h.CloseErr = <-closed:
	case <-time.After(lib.Live):
		h.problem("liveness: Close did not return within %v", lib.Live)
		return h
	}
	sdone := make(chan struct{})
	go func() { subWG.Wait(); close(sdone) }()
	select {
	case <-sdone:
	case <-time.After(lib.Live):
		h.problem("liveness: output channels not closed within %v after Close", lib.Live)
	}
	for _, c := range cancels {
		if c != nil {
			c()
		}
	}
	// state after Close
	h.PostPublishErr = g.Publish(p.topicName(0), message.NewMessage("after-close", nil))
	_, h.PostSubscribeErr = sub.Subscribe(context.Background(), p.topicName(0))
	h.PostChecked = true
	if !lib.WaitUntil(lib.Live, func() bool { n, _ := lib.PubSubGoroutines(); return n == 0 }) {
		h.LeakedGoroutines, h.LeakSample = lib.PubSubGoroutines()
	}
	return h
}

func (h *History) problem(f string, a ...any) {
	h.mu.Lock()
	h.Problems = append(h.Problems, fmt.Sprintf(f, a...))
	h.mu.Unlock()
}

func (h *History) pending() string {
	h.mu.Lock()
	defer h.mu.Unlock()
	var b strings.Builder
	for _, pr := range h.Pubs {
		if pr.StartT != 0 && !pr.Returned {
			fmt.Fprintf(&b, "  Publish p%dc%d on %s started at %d has not returned\n", pr.Pub, pr.Call, pr.Topic, pr.StartT)
		}
	}
	for _, s := range h.Subs {
		if s.StartT != 0 && !s.Started {
			fmt.Fprintf(&b, "  Subscribe #%d on %s started at %d has not returned\n", s.Index, s.Topic, s.StartT)
		}
	}
	return b.String()
}

// SidePubRec is one nested Publish call made by a subscriber while it holds a message.
type SidePubRec struct {
	ID, Topic    string
	StartT, EndT int64
	Err          error
	OwnCtx       bool // the follow-up carried the context of the message being processed
}

func (h *History) consume(g *gochannel.GoChannel, i int, ch <-chan *message.Message, cancel context.CancelFunc) {
	spec := h.Prog.Subs[i]
	sr := h.Subs[i]
	count := map[string]int{}
	total := 0
	var handle func(m *message.Message, whileHold bool)
	handle = func(m *message.Message, whileHold bool) {
		id := strings.TrimPrefix(string(m.Payload), "payload-")
		r := &Receipt{Sub: i, ID: id, Msg: m, Snap: lib.SnapOf(m), T: lib.Tick(), Marker: m.Context().Value(markerKey{}), WhileHold: whileHold}
		if e := m.Context().Err(); e != nil {
			r.CtxErr = e.Error()
		}
		r.SubCtxDone = sr.Ctx.Err() != nil
		h.mu.Lock()
		r.AfterCancel = sr.CancelT != 0
		r.AfterClose = h.closing
		sr.Receipts = append(sr.Receipts, r)
		if spec.Side {
			h.SideRecv++
		}
		h.mu.Unlock()
		count[id]++
		total++
		settle := func(ack bool) {
			h.mu.Lock()
			r.SettleT = lib.Tick()
			r.Acked = ack
			h.mu.Unlock()
			if ack {
				m.Ack()
				select {
				case <-m.Context().Done():
					h.mu.Lock()
					r.CtxDone = true
					h.mu.Unlock()
				case <-time.After(lib.Live):
				}
			} else {
				m.Nack()
			}
		}
		b := spec.Behav[id]
		if spec.Side || r.AfterCancel {
			b = Behav{Kind: BAck}
		}
		if spec.Side && h.Prog.Blocking {
			time.Sleep(200 * time.Microsecond) // a subscriber takes its time: a blocking Publish waits for it
		}
		switch b.Kind {
		case BAck:
			settle(true)
		case BNackThenAck:
			settle(count[id] > b.K)
		case BDelayAck:
			time.Sleep(time.Duration(b.K) * 100 * time.Microsecond)
			settle(true)
		case BMutateAck:
			m.Metadata.Set("mut-by", fmt.Sprint(i))
			m.Metadata.Set("k", "changed")
			settle(true)
		case BMutateNackThenAck:
			m.Metadata.Set("mut-by", fmt.Sprint(i))
			delete(m.Metadata, "k")
			settle(count[id] > 1)
		case BHold:
			// while this message is unsettled nothing else may become receivable
			select {
			case m2, ok := <-ch:
				if ok {
					handle(m2, true)
				}
			case <-time.After(time.Duration(b.K) * 100 * time.Microsecond):
			}
			settle(true)
		case BNackThenAckSameDelivery:
			if count[id] == 1 {
				settle(false)
				m.Ack() // too late: the first settlement decides
			} else {
				settle(true)
			}
		case BCancelHolding:
			h.mu.Lock()
			sr.CancelT = lib.Tick()
			h.mu.Unlock()
			cancel()
			return
		case BPublishSideThenAck:
			sm := message.NewMessage("side-"+id, []byte("payload-side-"+id))
			variant := (i + len(id) + count[id]) % 3
			sp := &SidePubRec{ID: "side-" + id, Topic: h.Prog.sideTopicOf(id), OwnCtx: variant >= 1}
			switch variant {
			case 1:
				// a follow-up usually carries the context of the message it follows (tracing, deadlines)
				sm.SetContext(m.Context())
			case 2:
				// ... or is the received message itself, passed on as it is: what the Pub/Sub is given is its own copy's
				// business, the delivery stays the consumer's to settle
				sm, sp.ID = m, id
			}
			sp.StartT = lib.Tick()
			sp.Err = g.Publish(sp.Topic, sm)
			sp.EndT = lib.Tick()
			h.mu.Lock()
			if sp.Err == nil {
				h.SidePub++
			}
			h.SidePubs = append(h.SidePubs, sp)
			h.mu.Unlock()
			if variant == 2 && h.Prog.Blocking {
				time.Sleep(300 * time.Microsecond) // still working on it: nobody else settles this delivery meanwhile
			}
			settle(true)
		}
		if spec.CancelAfter > 0 && total == spec.CancelAfter {
			h.mu.Lock()
			sr.CancelT = lib.Tick()
			h.mu.Unlock()
			cancel()
		}
	}
	for m := range ch {
		handle(m, false)
	}
	h.mu.Lock()
	sr.ClosedT = lib.Tick()
	h.mu.Unlock()
}

// Snapshot returns copies of the records under the lock (safe while the program still runs).
func (h *History) lock() func() { h.mu.Lock(); return h.mu.Unlock }

// MustDeliver reports whether subscription s owes message m of publish call pr a delivery.
func (h *History) mustDeliver(s *SubRec, pr *PubRec) bool {
	if !s.Started || s.Err != nil || s.Topic != pr.Topic || !pr.Returned || pr.Err != nil {
		return false
	}
	if s.CancelT != 0 || h.Prog.Subs[s.Index].Cancels() {
		return false // cancelled subscriptions owe nothing (conservative: also before the cancel)
	}
	if h.Prog.Persistent {
		return true
	}
	return pr.StartT > s.EndT
}

// Missing lists the mandatory (subscription, message) pairs that have no acked receipt yet.
func (h *History) Missing() []string {
	defer h.lock()()
	var out []string
	for _, s := range h.Subs {
		if h.Prog.Subs[s.Index].Side {
			continue
		}
		acked := map[string]bool{}
		for _, r := range s.Receipts {
			if r.Acked && r.SettleT != 0 {
				acked[r.ID] = true
			}
		}
		for _, pr := range h.Pubs {
			if !h.mustDeliver(s, pr) {
				continue
			}
			for _, id := range pr.IDs {
				if !acked[id] {
					out = append(out, fmt.Sprintf("sub#%d(%s) never got an acked delivery of %s (Publish %d..%d, Subscribe returned at %d)", s.Index, s.Topic, id, pr.StartT, pr.EndT, s.EndT))
				}
			}
		}
	}
	return out
}
