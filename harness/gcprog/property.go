package gcprog

import (
	"encoding/json"
	"fmt"
	"os"
	"strings"
	"testing"

	"github.com/ThreeDotsLabs/watermill/verifharness/lib"
	"pgregory.net/rapid"
)

func check(prop string, h *History) []string {
	switch prop {
	case "C04":
		return h.CheckC04()
	case "C05":
		return h.CheckC05()
	case "C11":
		return h.CheckC11()
	case "C07":
		return h.CheckC07()
	}
	panic("unknown property " + prop)
}

func nontrivial(prop string, p Prog, st Stats) bool {
	switch prop {
	case "C04":
		return st.SubsPerTopicMax >= 2 && (st.Nacks > 0 || st.Mutations > 0)
	case "C05":
		return st.HeldWithQueue > 0 || st.BlockingNack
	default:
		return p.Persistent && st.SubPubOverlap
	}
}

// CheckProperty generates one program, runs it and evaluates the invariants of prop.
func CheckProperty(t *rapid.T, prop, test string, o Opts) {
	p := Gen(t, o)
	h := Run(p)
	v := check(prop, h)
	st := h.Stats()
	if len(v) > 0 {
		path := lib.WriteReplay("TestReplayProgram", prop+"-"+test, map[string]any{"property": prop, "prog": p, "violations": v, "canon": p.Canon(), "history": h.Dump()})
		t.Fatalf("violation of %s (%d):\n  %s\nprogram: %s\nreplay: %s", prop, len(v), strings.Join(v, "\n  "), p.Canon(), path)
	}
	cls := []string{fmt.Sprintf("buffer=%d", p.Buffer)}
	if p.Persistent {
		cls = append(cls, "persistent")
	}
	if p.Blocking {
		cls = append(cls, "blocking")
	}
	if st.SubPubOverlap {
		cls = append(cls, "subscribe-overlaps-publish")
	}
	if st.Nacks > 0 {
		cls = append(cls, "has-nack")
	}
	if st.Mutations > 0 {
		cls = append(cls, "has-metadata-mutation")
	}
	if st.HeldWithQueue > 0 {
		cls = append(cls, "held-with-queue")
	}
	if p.Forced != nil {
		cls = append(cls, "forced-wanted")
		if h.ParkReached {
			cls = append(cls, "forced-achieved")
		}
	}
	if p.Excluded > 0 {
		lib.Count("excluded_known", int64(p.Excluded))
	}
	nt := nontrivial(prop, p, st)
	lib.Case(p.Canon(), nt, cls...)
	if nt {
		lib.Sample(map[string]any{"test": test, "program": p.Canon(), "receipts": st.Receipts, "nacks": st.Nacks, "forced_achieved": h.ParkReached})
	}
}

// ReplayFromEnv re-runs a recorded program (schedule-dependent: up to n attempts).
func ReplayFromEnv(t *testing.T, n int) {
	path := lib.OnlyCase()
	if path == "" {
		t.Skip("no replay file given")
	}
	b, err := os.ReadFile(path)
	if err != nil {
		t.Fatalf("cannot read %s: %v", path, err)
	}
	var f struct {
		Details struct {
			Property string
			Prog     Prog
		}
	}
	if err := json.Unmarshal(b, &f); err != nil {
		t.Fatalf("cannot parse %s: %v", path, err)
	}
	for i := 0; i < n; i++ {
		h := Run(f.Details.Prog)
		if v := check(f.Details.Property, h); len(v) > 0 {
			t.Fatalf("violation of %s reproduced at attempt %d:\n  %s\nhistory:\n%s", f.Details.Property, i+1, strings.Join(v, "\n  "), h.Dump())
		}
	}
}
