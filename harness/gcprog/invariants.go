package gcprog

import (
	"fmt"
	"sort"
	"strings"

	"github.com/ThreeDotsLabs/watermill/message"
	"github.com/ThreeDotsLabs/watermill/verifharness/lib"
)

func (h *History) pubOf(id string) (*PubRec, int) {
	for _, pr := range h.Pubs {
		for i, x := range pr.IDs {
			if x == id {
				return pr, i
			}
		}
	}
	return nil, -1
}

func (h *History) problemsWith(prefixes ...string) []string {
	var out []string
	for _, p := range h.Problems {
		for _, pre := range prefixes {
			if strings.HasPrefix(p, pre) {
				out = append(out, p)
			}
		}
	}
	return out
}

// perSubMsg groups receipts per (subscription, message id), ordered by receive time.
func perSubMsg(s *SubRec) map[string][]*Receipt {
	m := map[string][]*Receipt{}
	for _, r := range s.Receipts {
		m[r.ID] = append(m[r.ID], r)
	}
	for _, rs := range m {
		sort.Slice(rs, func(i, j int) bool { return rs[i].T < rs[j].T })
	}
	return m
}

// CheckC04 — delivery to every current subscriber, redelivery grammar, separate copies, contexts.
func (h *History) CheckC04() []string {
	defer h.lock()()
	v := h.problemsWith("loss:")
	seenPtr := map[*message.Message]string{}
	for _, pr := range h.Pubs {
		for i, o := range pr.Originals {
			seenPtr[o] = "publisher's original " + pr.IDs[i]
			if !lib.SnapOf(o).Equal(pr.Snaps[i]) {
				v = append(v, fmt.Sprintf("copy: the publisher's original %s changed: %+v -> %+v", pr.IDs[i], pr.Snaps[i], lib.SnapOf(o)))
			}
			a, n := lib.Settled(o)
			if now := fmt.Sprintf("acked=%v nacked=%v", a, n); i < len(pr.Pre) && now != pr.Pre[i] {
				v = append(v, fmt.Sprintf("copy: the publisher's original %s was %s when it was published and is %s now: settled by a subscriber", pr.IDs[i], pr.Pre[i], now))
			}
		}
	}
	for _, s := range h.Subs {
		if h.Prog.Subs[s.Index].Side {
			continue
		}
		for _, r := range s.Receipts {
			pr, idx := h.pubOf(r.ID)
			if pr == nil {
				v = append(v, fmt.Sprintf("deliver: sub#%d received an unknown message %q", s.Index, r.ID))
				continue
			}
			if pr.Topic != s.Topic {
				v = append(v, fmt.Sprintf("deliver: sub#%d of topic %s received %s published on %s", s.Index, s.Topic, r.ID, pr.Topic))
			}
			if !r.Snap.Equal(pr.Snaps[idx]) {
				v = append(v, fmt.Sprintf("copy: sub#%d received %s as %+v, published %+v (UUID/payload/metadata must be identical; another copy's edits must not show)", s.Index, r.ID, r.Snap, pr.Snaps[idx]))
			}
			if who, dup := seenPtr[r.Msg]; dup {
				v = append(v, fmt.Sprintf("copy: sub#%d received for %s the same message object as %s", s.Index, r.ID, who))
			}
			seenPtr[r.Msg] = fmt.Sprintf("a delivery of %s to sub#%d", r.ID, s.Index)
			if r.CtxErr != "" && !r.SubCtxDone && !r.AfterClose && !r.AfterCancel {
				v = append(v, fmt.Sprintf("ctx: sub#%d received %s with context error %q although its Subscribe context is live", s.Index, r.ID, r.CtxErr))
			}
			if r.Marker != s.Index {
				v = append(v, fmt.Sprintf("ctx: delivery context of %s to sub#%d does not derive from the Subscribe context (marker %v)", r.ID, s.Index, r.Marker))
			}
			if r.Acked && r.SettleT != 0 && !r.CtxDone && !r.AfterCancel {
				v = append(v, fmt.Sprintf("ctx: delivery context of %s to sub#%d not cancelled after the Ack", r.ID, s.Index))
			}
		}
		for id, rs := range perSubMsg(s) {
			for k := 1; k < len(rs); k++ {
				prev := rs[k-1]
				if rs[k].AfterCancel || prev.AfterCancel {
					continue
				}
				if prev.SettleT == 0 || prev.SettleT > rs[k].T {
					v = append(v, fmt.Sprintf("redeliver: sub#%d got %s again at %d while the previous delivery (at %d) was unsettled", s.Index, id, rs[k].T, prev.T))
				} else if prev.Acked {
					v = append(v, fmt.Sprintf("redeliver: sub#%d got %s again at %d after it Acked the previous delivery (received %d, acked %d)", s.Index, id, rs[k].T, prev.T, prev.SettleT))
				}
			}
		}
	}
	return v
}

// CheckC05 — one unsettled message per subscription; blocking publish waits and returns.
func (h *History) CheckC05() []string {
	defer h.lock()()
	v := h.problemsWith("liveness: publishers")
	for _, s := range h.Subs {
		rs := append([]*Receipt(nil), s.Receipts...)
		sort.Slice(rs, func(i, j int) bool { return rs[i].T < rs[j].T })
		for k, r := range rs {
			if r.AfterCancel || r.AfterClose {
				continue // leftovers after a cancel / during Close may be delivered or dropped
			}
			if r.WhileHold {
				v = append(v, fmt.Sprintf("one: sub#%d (buffer %d, persistent %v) received %s while its previous message was still unsettled", s.Index, h.Prog.Buffer, h.Prog.Persistent, r.ID))
			}
			if k > 0 && !r.WhileHold && (rs[k-1].SettleT == 0 || rs[k-1].SettleT > r.T) {
				v = append(v, fmt.Sprintf("one: sub#%d received %s at %d before %s was settled", s.Index, r.ID, r.T, rs[k-1].ID))
			}
		}
	}
	if h.Prog.Blocking {
		for _, pr := range h.Pubs {
			if !pr.Returned || pr.Err != nil {
				continue
			}
			for _, s := range h.Subs {
				spec := h.Prog.Subs[s.Index]
				if spec.Side || !s.Started || s.Err != nil || s.Topic != pr.Topic || s.EndT == 0 || s.EndT > pr.StartT || spec.Cancels() {
					continue
				}
				byID := perSubMsg(s)
				for _, id := range pr.IDs {
					ok := false
					for _, r := range byID[id] {
						if r.Acked && r.SettleT != 0 && r.SettleT < pr.EndT {
							ok = true
						}
					}
					if !ok {
						v = append(v, fmt.Sprintf("block: Publish p%dc%d returned at %d but sub#%d (subscribed since %d) had not acked %s yet (receipts: %s)", pr.Pub, pr.Call, pr.EndT, s.Index, s.EndT, id, describe(byID[id])))
					}
				}
			}
		}
		// the same for the Publish calls subscribers make themselves while they hold a message (follow-ups, whatever context
		// they carry): the call returns once the subscriptions of that topic have acked
		for _, sp := range h.SidePubs {
			if sp.Err != nil {
				continue
			}
			for _, s := range h.Subs {
				spec := h.Prog.Subs[s.Index]
				if !spec.Side || !s.Started || s.Err != nil || s.Topic != sp.Topic || s.EndT == 0 || s.EndT > sp.StartT || s.CancelT != 0 {
					continue
				}
				ok := false
				for _, r := range s.Receipts {
					if r.ID == sp.ID && r.Acked && r.SettleT != 0 && r.SettleT < sp.EndT {
						ok = true
					}
				}
				if !ok {
					v = append(v, fmt.Sprintf("block: the Publish of follow-up %s (made by a subscriber while holding its message; carries that message's context: %v) returned at %d but sub#%d of %s had not acked it yet", sp.ID, sp.OwnCtx, sp.EndT, s.Index, sp.Topic))
				}
			}
		}
		// per publisher order at every pre-existing subscription
		for _, s := range h.Subs {
			spec := h.Prog.Subs[s.Index]
			if spec.Side || !s.Started || s.Err != nil {
				continue
			}
			first := map[string]int64{}
			for id, rs := range perSubMsg(s) {
				first[id] = rs[0].T
			}
			last := map[int]int64{}
			lastID := map[int]string{}
			for _, pr := range h.Pubs {
				if pr.Topic != s.Topic || !pr.Returned || pr.Err != nil || s.EndT > pr.StartT {
					continue
				}
				for _, id := range pr.IDs {
					t, ok := first[id]
					if !ok {
						continue
					}
					if t < last[pr.Pub] {
						v = append(v, fmt.Sprintf("order: sub#%d received %s (at %d) before %s (at %d) although publisher %d published them in the other order (blocking mode)", s.Index, id, t, lastID[pr.Pub], last[pr.Pub], pr.Pub))
					}
					last[pr.Pub], lastID[pr.Pub] = t, id
				}
			}
		}
	}
	return v
}

func describe(rs []*Receipt) string {
	var b strings.Builder
	for _, r := range rs {
		fmt.Fprintf(&b, "[recv %d settle %d acked=%v]", r.T, r.SettleT, r.Acked)
	}
	if b.Len() == 0 {
		return "none"
	}
	return b.String()
}

// CheckC11 — persistent mode: every subscription gets the whole topic, each message exactly once (per Ack).
func (h *History) CheckC11() []string {
	defer h.lock()()
	if !h.Prog.Persistent {
		return nil
	}
	v := h.problemsWith("loss:")
	for _, s := range h.Subs {
		spec := h.Prog.Subs[s.Index]
		if spec.Side || !s.Started || s.Err != nil || spec.Cancels() {
			continue
		}
		byID := perSubMsg(s)
		for _, pr := range h.Pubs {
			if pr.Topic != s.Topic || !pr.Returned || pr.Err != nil {
				continue
			}
			for idx, id := range pr.IDs {
				acks, nacks := 0, 0
				for _, r := range byID[id] {
					// "receives every message published": the message, i.e. the UUID, payload and metadata that were published
					if !r.Snap.Equal(pr.Snaps[idx]) {
						v = append(v, fmt.Sprintf("replay: sub#%d received %s as %+v, published was %+v", s.Index, id, r.Snap, pr.Snaps[idx]))
					}
					if r.SettleT == 0 {
						continue
					}
					if r.Acked {
						acks++
					} else {
						nacks++
					}
				}
				if acks != 1 || len(byID[id]) != 1+nacks {
					v = append(v, fmt.Sprintf("replay: sub#%d (Subscribe %d..%d) got %s %d times with %d acks and %d nacks; every message of the topic must arrive exactly once per Ack (Publish %d..%d): %s",
						s.Index, s.StartT, s.EndT, id, len(byID[id]), acks, nacks, pr.StartT, pr.EndT, describe(byID[id])))
				}
			}
		}
	}
	return v
}

// Stats classifies the executed history (generator health and non-triviality).
type Stats struct {
	Nacks, Mutations, Holds, HeldWithQueue int
	SubsPerTopicMax                        int
	SubPubOverlap                          bool // a Subscribe call interval overlaps a Publish call interval on the same topic
	BlockingNack                           bool
	Receipts                               int
}

func (h *History) Stats() Stats {
	defer h.lock()()
	var st Stats
	perTopic := map[string]int{}
	for _, s := range h.Subs {
		spec := h.Prog.Subs[s.Index]
		if spec.Side {
			continue
		}
		perTopic[s.Topic]++
		if perTopic[s.Topic] > st.SubsPerTopicMax {
			st.SubsPerTopicMax = perTopic[s.Topic]
		}
		st.Receipts += len(s.Receipts)
		for k, r := range s.Receipts {
			if r.SettleT != 0 && !r.Acked {
				st.Nacks++
				if h.Prog.Blocking {
					st.BlockingNack = true
				}
			}
			b := spec.Behav[r.ID]
			if b.Kind == BMutateAck || b.Kind == BMutateNackThenAck {
				st.Mutations++
			}
			if b.Kind == BHold || b.Kind == BDelayAck {
				st.Holds++
				if len(s.Receipts)-k-1 >= 2 {
					st.HeldWithQueue++
				}
			}
		}
		for _, pr := range h.Pubs {
			if pr.Topic == s.Topic && s.StartT != 0 && pr.StartT != 0 && s.StartT < pr.EndT && pr.StartT < s.EndT {
				st.SubPubOverlap = true
			}
		}
	}
	return st
}

// Dump renders the history for replay files and debugging.
func (h *History) Dump() string {
	defer h.lock()()
	var b strings.Builder
	for _, pr := range h.Pubs {
		fmt.Fprintf(&b, "Publish p%dc%d topic=%s ids=%v %d..%d err=%v returned=%v\n", pr.Pub, pr.Call, pr.Topic, pr.IDs, pr.StartT, pr.EndT, pr.Err, pr.Returned)
	}
	for _, s := range h.Subs {
		fmt.Fprintf(&b, "Subscribe #%d topic=%s %d..%d err=%v cancelT=%d closedT=%d\n", s.Index, s.Topic, s.StartT, s.EndT, s.Err, s.CancelT, s.ClosedT)
		for _, r := range s.Receipts {
			fmt.Fprintf(&b, "   recv %s at %d settle=%d acked=%v whileHold=%v afterCancel=%v afterClose=%v ctxErr=%q ptr=%p behav=%s\n", r.ID, r.T, r.SettleT, r.Acked, r.WhileHold, r.AfterCancel, r.AfterClose, r.CtxErr, r.Msg, h.Prog.Subs[s.Index].Behav[r.ID])
		}
	}
	return b.String()
}

// CheckC07 — Close and cancel terminate safely: every call returned, channels closed, calls refused
// afterwards, no Pub/Sub goroutine left.
func (h *History) CheckC07() []string {
	defer h.lock()()
	v := h.problemsWith("liveness:")
	if !h.PostChecked {
		return v
	}
	if h.PostPublishErr == nil {
		v = append(v, "close: Publish after Close returned nil")
	}
	if h.PostSubscribeErr == nil {
		v = append(v, "close: Subscribe after Close returned nil")
	}
	if h.LeakedGoroutines > 0 {
		v = append(v, fmt.Sprintf("close: %d Pub/Sub goroutines remain after Close, e.g.\n%s", h.LeakedGoroutines, h.LeakSample))
	}
	for _, s := range h.Subs {
		if s.Started && s.Err == nil && s.ClosedT == 0 {
			v = append(v, fmt.Sprintf("close: output channel of subscription #%d was not closed", s.Index))
		}
	}
	return v
}
