// C08 — Router routes per handler: right function, right topic, unmodified outputs.
package c08

import (
	"context"
	"fmt"
	"strings"
	"sync"
	"testing"
	"time"

	"github.com/ThreeDotsLabs/watermill"
	"github.com/ThreeDotsLabs/watermill/message"
	"github.com/ThreeDotsLabs/watermill/verifharness/lib"
	"pgregory.net/rapid"
)

func TestMain(m *testing.M) {
	lib.Extra("rule", "rapid-generated router configurations: 1..6 handlers over a pool of 3 topics, 1..3 scripted subscribers and 1..3 scripted publishers (sharing allowed; named via fmt.Stringer or by type), "+
		"no-publisher handlers with or without an output-adding middleware, message streams emitted concurrently on every subscription, outputs 0..3 fresh / the consumed object / one object twice. "+
		"Oracle = routing model (channel->handler bijection per (subscriber,topic); Publish on the handler's publisher/topic with the returned pointers, order and content; context accessors). "+
		"Non-trivial: >=2 handlers share a topic, a subscriber or a publisher. Distinct by canonical case encoding."+
		" A function may ack or nack the consumed message itself and still return outputs (published all the same; the first settlement stands).")
	lib.Extra("assumptions", []string{
		"a scripted subscriber cannot know which handler called Subscribe; the check demands that the observed channel->handler relation is a bijection onto the handlers registered for that (subscriber, topic)",
		"20 s liveness bound for settlement",
	})
	lib.Main(m)
}

type hspec struct {
	Name     string
	Sub      int
	SubTopic string
	Pub      int // -1 = no-publisher handler
	PubTopic string
	AppendMW bool // only meaningful for no-publisher handlers and normal ones alike: middleware adding one output
	Late     bool // added after Run, started by RunHandlers
}

type mspec struct {
	Outs   int
	Shared bool // consumed object itself is the first output
	Dup    bool // the first fresh output is returned twice
	Settle int  // 1 = the function acks the consumed message itself before returning, 2 = it nacks it itself (and still returns nil)
}

type caseT struct {
	SubNames []string
	PubNames []string
	Handlers []hspec
	PerChan  int
	Phase2   bool // second round of messages carrying a context captured in another handler
	PubDecs  int  // no-op publisher decorators installed on the router
	SubDecs  int  // no-op subscriber decorators installed on the router
	Msgs     map[string]mspec
	Wait     bool // wait for each settlement before emitting the next on the same channel
}

// topics are used verbatim: "t1" and " t1" are two topics
var topics = []string{"t0", "t1", "t2", "", " t1", "t2\n"}

func genCase(t *rapid.T) caseT {
	c := caseT{Msgs: map[string]mspec{}}
	ns := rapid.IntRange(1, 3).Draw(t, "nSubs")
	for i := 0; i < ns; i++ {
		c.SubNames = append(c.SubNames, rapid.SampledFrom([]string{"", fmt.Sprintf("sub#%d", i), "same-name"}).Draw(t, "subName"))
	}
	np := rapid.IntRange(1, 3).Draw(t, "nPubs")
	for i := 0; i < np; i++ {
		c.PubNames = append(c.PubNames, rapid.SampledFrom([]string{"", fmt.Sprintf("pub#%d", i), "same-name"}).Draw(t, "pubName"))
	}
	nh := rapid.IntRange(1, 6).Draw(t, "nHandlers")
	emptyName := rapid.IntRange(-4, nh-1).Draw(t, "handlerWithEmptyName")
	for i := 0; i < nh; i++ {
		name := fmt.Sprintf("h%d", i)
		if i == emptyName {
			name = "" // AddHandler accepts the empty name
		}
		h := hspec{
			Name:     name,
			Sub:      rapid.IntRange(0, ns-1).Draw(t, "sub"),
			SubTopic: rapid.SampledFrom(topics).Draw(t, "subTopic"),
			Pub:      rapid.IntRange(-1, np-1).Draw(t, "pub"),
			AppendMW: rapid.IntRange(0, 3).Draw(t, "appendMW") == 0,
			Late:     i > 0 && rapid.IntRange(0, 3).Draw(t, "addedAfterRun") == 0,
		}
		if h.Pub >= 0 {
			h.PubTopic = rapid.SampledFrom(topics).Draw(t, "pubTopic")
		}
		c.Handlers = append(c.Handlers, h)
	}
	c.PerChan = rapid.IntRange(1, 3).Draw(t, "msgsPerSubscription")
	c.Wait = rapid.Bool().Draw(t, "waitSettle")
	c.Phase2 = rapid.Bool().Draw(t, "foreignContextRound")
	c.PubDecs = rapid.IntRange(0, 2).Draw(t, "publisherDecorators")
	c.SubDecs = rapid.IntRange(0, 2).Draw(t, "subscriberDecorators")
	for ch := 0; ch < nh; ch++ {
		for k := 0; k < c.PerChan+1; k++ {
			c.Msgs[fmt.Sprintf("c%d-%d", ch, k)] = mspec{
				Outs:   rapid.IntRange(0, 3).Draw(t, "outs"),
				Shared: rapid.IntRange(0, 3).Draw(t, "shared") == 0,
				Dup:    rapid.IntRange(0, 4).Draw(t, "dup") == 0,
				Settle: rapid.SampledFrom([]int{0, 0, 0, 0, 1, 2}).Draw(t, "functionSettlesItself"),
			}
		}
	}
	return c
}

func (c caseT) canon() string {
	var b strings.Builder
	fmt.Fprintf(&b, "%q|%q|%d|%v|%v|%d%d|", c.SubNames, c.PubNames, c.PerChan, c.Wait, c.Phase2, c.PubDecs, c.SubDecs)
	for _, h := range c.Handlers {
		fmt.Fprintf(&b, "%q,%d,%s,%d,%s,%v,%v;", h.Name, h.Sub, h.SubTopic, h.Pub, h.PubTopic, h.AppendMW, h.Late)
	}
	for ch := 0; ch < len(c.Handlers); ch++ {
		for k := 0; k < c.PerChan; k++ {
			m := c.Msgs[fmt.Sprintf("c%d-%d", ch, k)]
			fmt.Fprintf(&b, "%d%v%v%d.", m.Outs, m.Shared, m.Dup, m.Settle)
		}
	}
	return b.String()
}

// plainSub / plainPub do not implement fmt.Stringer: the router must name them by type.
type plainSub struct{ s *lib.ScriptSub }

func (p *plainSub) Subscribe(ctx context.Context, topic string) (<-chan *message.Message, error) {
	return p.s.Subscribe(ctx, topic)
}
func (p *plainSub) Close() error { return p.s.Close() }

type plainPub struct{ p *lib.ScriptPub }

func (p plainPub) Publish(topic string, msgs ...*message.Message) error {
	return p.p.Publish(topic, msgs...)
}
func (p plainPub) Close() error { return p.p.Close() }

type handled struct {
	handler string
	settle  int
	ctx     context.Context
	outs    []*message.Message
	snaps   []lib.Snap
	ctxVals [5]string
	ownCtx  []any // per output: the value its own context carried when the handler returned it
}

type ownCtxKey struct{}

func ctxVals(ctx context.Context) [5]string {
	return [5]string{message.HandlerNameFromCtx(ctx), message.SubscribeTopicFromCtx(ctx), message.PublishTopicFromCtx(ctx),
		message.SubscriberNameFromCtx(ctx), message.PublisherNameFromCtx(ctx)}
}

func runCase(t *rapid.T, c caseT) {
	router, err := message.NewRouter(message.RouterConfig{CloseTimeout: 5 * time.Second}, watermill.NopLogger{})
	if err != nil {
		t.Fatalf("NewRouter: %v", err)
	}
	// decorators must not change what the context reports (the names are those of the handler's own Pub/Sub)
	for i := 0; i < c.PubDecs; i++ {
		router.AddPublisherDecorators(message.MessageTransformPublisherDecorator(func(*message.Message) {}))
	}
	for i := 0; i < c.SubDecs; i++ {
		router.AddSubscriberDecorators(message.MessageTransformSubscriberDecorator(func(*message.Message) {}))
	}
	subs := make([]*lib.ScriptSub, len(c.SubNames))
	for i, n := range c.SubNames {
		subs[i] = lib.NewScriptSub(n)
	}
	pubs := make([]*lib.ScriptPub, len(c.PubNames))
	for i, n := range c.PubNames {
		pubs[i] = lib.NewScriptPub(n)
	}
	subIface := make([]message.Subscriber, len(subs))
	subName := make([]string, len(subs))
	for i, sb := range subs {
		if c.SubNames[i] == "" {
			subIface[i], subName[i] = &plainSub{sb}, "c08.plainSub"
		} else {
			subIface[i], subName[i] = sb, c.SubNames[i]
		}
	}
	pubIface := make([]message.Publisher, len(pubs))
	pubName := make([]string, len(pubs))
	for i, pb := range pubs {
		if c.PubNames[i] == "" {
			pubIface[i], pubName[i] = plainPub{pb}, "c08.plainPub"
		} else {
			pubIface[i], pubName[i] = pb, c.PubNames[i]
		}
	}
	var mu sync.Mutex
	handledBy := map[string][]handled{} // tag -> invocations
	addPass := func(late bool) {
		for _, hs := range c.Handlers {
			if hs.Late != late {
				continue
			}
			hs := hs
			fn := func(msg *message.Message) ([]*message.Message, error) {
				tag := msg.Metadata.Get("tag")
				ms := c.Msgs[tag]
				var outs []*message.Message
				if hs.Pub >= 0 {
					if ms.Shared {
						outs = append(outs, msg)
					}
					for i := 0; i < ms.Outs; i++ {
						uuid := fmt.Sprintf("%s-o%d", tag, i)
						if (i+len(tag))%3 == 0 {
							uuid = "" // UUIDs are optional: outputs without one reach the publisher without one
						}
						o := message.NewMessage(uuid, []byte(hs.Name+"/"+tag))
						o.Metadata.Set("i", fmt.Sprint(i))
						if i%2 == 1 || len(tag)%2 == 1 {
							// outputs may carry a context of their own (tracing spans, deadlines): the router only ADDS its values
							octx := context.WithValue(context.Background(), ownCtxKey{}, "own:"+o.UUID)
							if i == 1 {
								// ... also one that is over already: what the publisher makes of it is the publisher's business
								var ocancel context.CancelFunc
								octx, ocancel = context.WithCancel(octx)
								ocancel()
							}
							o.SetContext(octx)
						}
						outs = append(outs, o)
						if i == 0 && ms.Dup {
							outs = append(outs, o)
						}
					}
					for _, o := range outs {
						o.Metadata.Set("src", tag)
						o.Metadata.Set("h", hs.Name)
					}
				}
				if len(outs) == 0 && len(tag)%2 == 0 {
					outs = message.Messages{} // "nothing" as an empty slice rather than nil
				}
				// a function may settle the consumed message itself; what it returns with a nil error is output all the same
				switch ms.Settle {
				case 1:
					msg.Ack()
				case 2:
					msg.Nack()
				}
				rec := handled{handler: hs.Name, settle: ms.Settle, ctx: msg.Context(), outs: append([]*message.Message(nil), outs...), ctxVals: ctxVals(msg.Context())}
				for _, o := range outs {
					rec.snaps = append(rec.snaps, lib.SnapOf(o))
					rec.ownCtx = append(rec.ownCtx, o.Context().Value(ownCtxKey{}))
				}
				mu.Lock()
				handledBy[tag] = append(handledBy[tag], rec)
				mu.Unlock()
				return outs, nil
			}
			var h *message.Handler
			if hs.Pub >= 0 {
				h = router.AddHandler(hs.Name, hs.SubTopic, subIface[hs.Sub], hs.PubTopic, pubIface[hs.Pub], fn)
			} else {
				h = router.AddNoPublisherHandler(hs.Name, hs.SubTopic, subIface[hs.Sub], func(msg *message.Message) error {
					_, err := fn(msg)
					return err
				})
			}
			if !hs.AppendMW && hs.Sub%2 == 0 {
				// a middleware that says "nothing produced" with an empty slice instead of nil (filtering middlewares do)
				h.AddMiddleware(func(next message.HandlerFunc) message.HandlerFunc {
					return func(msg *message.Message) ([]*message.Message, error) {
						out, err := next(msg)
						if len(out) == 0 {
							out = make([]*message.Message, 0, 1)
						}
						return out, err
					}
				})
			}
			if hs.AppendMW {
				h.AddMiddleware(func(next message.HandlerFunc) message.HandlerFunc {
					return func(msg *message.Message) ([]*message.Message, error) {
						out, err := next(msg)
						if err == nil {
							o := message.NewMessage(msg.Metadata.Get("tag")+"-mw", []byte("mw"))
							o.Metadata.Set("src", msg.Metadata.Get("tag"))
							o.Metadata.Set("h", hs.Name)
							out = append(out, o)
							mu.Lock()
							recs := handledBy[msg.Metadata.Get("tag")]
							if n := len(recs); n > 0 {
								recs[n-1].outs = append(recs[n-1].outs, o)
								recs[n-1].snaps = append(recs[n-1].snaps, lib.SnapOf(o))
								recs[n-1].ownCtx = append(recs[n-1].ownCtx, nil)
							}
							mu.Unlock()
						}
						return out, err
					}
				})
			}
		}
	}
	addPass(false)
	go router.Run(context.Background())
	select {
	case <-router.Running():
	case <-time.After(lib.Live):
		t.Fatalf("harness: router did not start")
	}
	// handlers added to the running router and started with RunHandlers are handlers like any other
	addPass(true)
	if err := router.RunHandlers(context.Background()); err != nil {
		t.Fatalf("RunHandlers: %v", err)
	}
	// group handlers by (subscriber, topic)
	type gk struct {
		sub   int
		topic string
	}
	groups := map[gk][]hspec{}
	for _, h := range c.Handlers {
		groups[gk{h.Sub, h.SubTopic}] = append(groups[gk{h.Sub, h.SubTopic}], h)
	}
	type chanRec struct {
		id  int
		key gk
		s   *lib.Subscription
	}
	var chans []chanRec
	for i, s := range subs {
		got := map[string]int{}
		for _, sc := range s.Subs() {
			got[sc.Topic]++
			chans = append(chans, chanRec{id: len(chans), key: gk{i, sc.Topic}, s: sc})
		}
		for _, tp := range topics {
			if want := len(groups[gk{i, tp}]); got[tp] != want {
				t.Fatalf("violation: subscriber %d got %d Subscribe calls for topic %s, %d handlers are registered for it", i, got[tp], tp, want)
			}
		}
	}
	if len(chans) != len(c.Handlers) {
		t.Fatalf("violation: %d subscriptions for %d handlers", len(chans), len(c.Handlers))
	}
	// emit concurrently on all channels
	var wg sync.WaitGroup
	var dmu sync.Mutex
	deliveries := map[string]*lib.Delivery{}
	tagChan := map[string]chanRec{}
	emitErr := make(chan string, 64)
	for _, ch := range chans {
		ch := ch
		wg.Add(1)
		go func() {
			defer wg.Done()
			for k := 0; k < c.PerChan; k++ {
				tag := fmt.Sprintf("c%d-%d", ch.id, k)
				m := message.NewMessage("u-"+tag, []byte("p-"+tag))
				m.Metadata.Set("tag", tag)
				d, ok := ch.s.Emit(m, tag, 0, lib.Live)
				if !ok {
					emitErr <- "router did not take message " + tag
					return
				}
				dmu.Lock()
				deliveries[tag] = d
				tagChan[tag] = ch
				dmu.Unlock()
				if c.Wait {
					d.Wait(2 * lib.Live)
				}
			}
		}()
	}
	wg.Wait()
	select {
	case e := <-emitErr:
		t.Fatalf("harness: %s", e)
	default:
	}
	for tag, d := range deliveries {
		if _, ok := d.Wait(2 * lib.Live); !ok {
			t.Fatalf("violation: message %s never settled", tag)
		}
	}
	if c.Phase2 && len(chans) > 1 {
		// a transport may hand over a context that already went through another handler
		// (e.g. an in-process relay that keeps the consumed message's context)
		for i, ch := range chans {
			donorTag := fmt.Sprintf("c%d-0", chans[(i+1)%len(chans)].id)
			mu.Lock()
			var donor context.Context
			if recs := handledBy[donorTag]; len(recs) == 1 {
				donor = recs[0].ctx
			}
			mu.Unlock()
			if donor == nil {
				continue
			}
			tag := fmt.Sprintf("c%d-%d", ch.id, c.PerChan)
			m := message.NewMessage("u-"+tag, []byte("p-"+tag))
			m.Metadata.Set("tag", tag)
			m.SetContext(donor)
			d, ok := ch.s.Emit(m, tag, 0, lib.Live)
			if !ok {
				t.Fatalf("harness: router did not take message %s", tag)
			}
			deliveries[tag] = d
			tagChan[tag] = ch
			if _, ok := d.Wait(2 * lib.Live); !ok {
				t.Fatalf("violation: message %s never settled", tag)
			}
		}
	}
	time.Sleep(200 * time.Microsecond)
	closed := make(chan struct{})
	go func() { router.Close(); close(closed) }()
	select {
	case <-closed:
	case <-time.After(lib.Live):
		lib.Count("router_close_slow", 1)
	}

	mu.Lock()
	defer mu.Unlock()
	byName := map[string]hspec{}
	for _, h := range c.Handlers {
		byName[h.Name] = h
	}
	chanHandler := map[int]string{}
	handlerChan := map[string]int{}
	expectPub := map[int]int{} // publisher index -> expected number of calls
	for tag, d := range deliveries {
		ch := tagChan[tag]
		recs := handledBy[tag]
		if len(recs) != 1 {
			t.Fatalf("violation: message %s handled %d times, want exactly once", tag, len(recs))
		}
		r := recs[0]
		hs := byName[r.handler]
		if hs.Sub != ch.key.sub || hs.SubTopic != ch.key.topic {
			t.Fatalf("violation: message %s sent on (subscriber %d, topic %s) was handled by %s registered for (subscriber %d, topic %s)",
				tag, ch.key.sub, ch.key.topic, hs.Name, hs.Sub, hs.SubTopic)
		}
		if prev, ok := chanHandler[ch.id]; ok && prev != r.handler {
			t.Fatalf("violation: messages of one subscription were handled by two handlers (%s, %s)", prev, r.handler)
		}
		chanHandler[ch.id] = r.handler
		if prev, ok := handlerChan[r.handler]; ok && prev != ch.id {
			t.Fatalf("violation: handler %s received messages from two subscriptions", r.handler)
		}
		handlerChan[r.handler] = ch.id
		// context inside the handler
		wantPubName := "message.disabledPublisher"
		if hs.Pub >= 0 {
			wantPubName = pubName[hs.Pub]
		}
		want := [5]string{hs.Name, hs.SubTopic, hs.PubTopic, subName[hs.Sub], wantPubName}
		if r.ctxVals != want {
			t.Fatalf("violation: context inside handler %s reports %q, want %q", hs.Name, r.ctxVals, want)
		}
		a, n := d.State()
		if hs.Pub < 0 {
			wantAck := len(r.outs) == 0
			if r.settle != 0 {
				wantAck = r.settle == 1 // the first settlement stands
			}
			if a != wantAck || n == wantAck {
				t.Fatalf("violation: no-publisher handler %s returned %d messages for %s: acked=%v nacked=%v", hs.Name, len(r.outs), tag, a, n)
			}
			continue
		}
		if wantNack := r.settle == 2; a == wantNack || n != wantNack {
			t.Fatalf("violation: message %s of handler %s (function settled it itself: %d): acked=%v nacked=%v", tag, hs.Name, r.settle, a, n)
		}
		if len(r.outs) > 0 {
			expectPub[hs.Pub]++
		}
	}
	for pi, p := range pubs {
		calls := p.Calls()
		if len(calls) != expectPub[pi] {
			t.Fatalf("violation: publisher %d saw %d Publish calls, model expects %d", pi, len(calls), expectPub[pi])
		}
		for _, pc := range calls {
			if len(pc.Msgs) == 0 {
				t.Fatalf("violation: empty Publish call on publisher %d", pi)
			}
			src, hname := pc.Snaps[0].Meta["src"], pc.Snaps[0].Meta["h"]
			hs, ok := byName[hname]
			recs := handledBy[src]
			if !ok || len(recs) != 1 {
				t.Fatalf("violation: Publish of unknown origin on publisher %d: %+v", pi, pc.Snaps[0])
			}
			r := recs[0]
			if hs.Pub != pi {
				t.Fatalf("violation: outputs of handler %s went to publisher %d, its publisher is %d", hname, pi, hs.Pub)
			}
			if pc.Topic != hs.PubTopic {
				t.Fatalf("violation: outputs of handler %s published on %q, its publish topic is %q", hname, pc.Topic, hs.PubTopic)
			}
			if len(pc.Msgs) != len(r.outs) {
				t.Fatalf("violation: handler %s returned %d messages for %s, Publish got %d", hname, len(r.outs), src, len(pc.Msgs))
			}
			for k := range pc.Msgs {
				if pc.Msgs[k] != r.outs[k] {
					t.Fatalf("violation: Publish argument %d of %s/%s is not the returned object (copied or reordered)", k, hname, src)
				}
				if !pc.Snaps[k].Equal(r.snaps[k]) {
					t.Fatalf("violation: output %d of %s/%s was modified before Publish: %+v -> %+v", k, hname, src, r.snaps[k], pc.Snaps[k])
				}
				want := [5]string{hs.Name, hs.SubTopic, hs.PubTopic, subName[hs.Sub], pubName[hs.Pub]}
				if got := ctxVals(pc.Ctxs[k]); got != want {
					t.Fatalf("violation: context of produced message %d of %s reports %q, want %q", k, hname, got, want)
				}
				if wantOwn := r.ownCtx[k]; pc.Ctxs[k].Value(ownCtxKey{}) != wantOwn {
					t.Fatalf("violation: produced message %d of %s/%s reaches the publisher with the own context value %v, the handler gave it %v", k, hname, src, pc.Ctxs[k].Value(ownCtxKey{}), wantOwn)
				}
			}
		}
	}
	// sharing
	shared := false
	seenT, seenS, seenP := map[string]int{}, map[int]int{}, map[int]int{}
	for _, h := range c.Handlers {
		seenT[h.SubTopic]++
		seenS[h.Sub]++
		if h.Pub >= 0 {
			seenP[h.Pub]++
		}
	}
	for _, n := range seenT {
		shared = shared || n > 1
	}
	for _, n := range seenS {
		shared = shared || n > 1
	}
	for _, n := range seenP {
		shared = shared || n > 1
	}
	sameGroup := false
	for _, g := range groups {
		sameGroup = sameGroup || len(g) > 1
	}
	cls := []string{}
	if shared {
		cls = append(cls, "shared-topic-sub-or-pub")
	}
	if sameGroup {
		cls = append(cls, "handlers-on-same-subscriber-and-topic")
	}
	lib.Case(c.canon(), shared, cls...)
	if shared {
		lib.Sample(map[string]any{"test": "Routing", "handlers": c.Handlers, "subs": c.SubNames, "pubs": c.PubNames, "per_chan": c.PerChan})
	}
}

func TestRouting(t *testing.T) {
	rapid.Check(t, func(t *rapid.T) { runCase(t, genCase(t)) })
}
