// C09 — Middlewares nest in registration order per handler; decorators apply in order.
package c09

import (
	"context"
	"fmt"
	"sort"
	"strings"
	"sync"
	"testing"
	"time"

	"github.com/ThreeDotsLabs/watermill"
	"github.com/ThreeDotsLabs/watermill/components/forwarder"
	"github.com/ThreeDotsLabs/watermill/message"
	"github.com/ThreeDotsLabs/watermill/verifharness/lib"
	"pgregory.net/rapid"
)

func TestMain(m *testing.M) {
	lib.Extra("rule", "registration programs over {router-level AddMiddleware, AddHandler X, handler-level AddMiddleware on X} (1..2 middlewares per call; handler names incl. the empty name) "+
		"and lists of AddPublisherDecorators/AddSubscriberDecorators calls, all before Run; one message per handler; every middleware logs enter/leave, every decorator appends its id to a metadata field. "+
		"Oracle = exact expected trace `enter m1..mk, handler, leave mk..m1` (router-level + own in global registration order) and decorator tag strings in registration order, for every handler. "+
		"Exhaustive: all programs with <= N registrations over {R, A, B} with both AddHandler calls at every legal position; random: up to 20 registrations, 4 handlers, decorator lists up to length 5. "+
		"Non-trivial: the program mixes router-level registrations with handler-level registrations of >=2 handlers (middleware part) or has >=2 decorators and >=2 handlers (decorator part)."+
		" Random programs may register the decorators (and one more router-level middleware) through a RouterPlugin, and may place a forwarder component with middlewares of its own on the router (op F): those run on the forwarder's handler only.")
	lib.Extra("assumptions", []string{
		"all registrations happen before Run (middlewares registered after a handler started are not part of the property)",
		"scripted subscriber/publisher per handler; 20 s liveness bound",
	})
	lib.Main(m)
}

type regOp struct {
	Kind    string // "R" router-level, "H" add handler, "M" handler-level, "F" a forwarder component placed on this router with N middlewares of its own, "D" a refused AddHandler (duplicate name)
	Handler int    // for H and M
	N       int    // number of middlewares in the call (1..2)
}

type program struct {
	Names   []string // handler names by index
	Ops     []regOp
	PubDecs []int // each entry = number of decorators in one AddPublisherDecorators call
	SubDecs []int
	Plugin  int // 1 = the decorators are registered by a RouterPlugin (plugins run when Run starts), 2 = that plugin also adds one more router-level middleware
}

func (p program) canon() string {
	var b strings.Builder
	fmt.Fprintf(&b, "%q|", p.Names)
	for _, o := range p.Ops {
		fmt.Fprintf(&b, "%s%d.%d,", o.Kind, o.Handler, o.N)
	}
	fmt.Fprintf(&b, "|%v|%v", p.PubDecs, p.SubDecs)
	if p.Plugin != 0 {
		fmt.Fprintf(&b, "|plugin%d", p.Plugin)
	}
	return b.String()
}

// run executes the program on a real router and returns the first discrepancy ("" = ok).
func run(p program) string {
	router, err := message.NewRouter(message.RouterConfig{CloseTimeout: 5 * time.Second}, watermill.NopLogger{})
	if err != nil {
		return "harness: " + err.Error()
	}
	var mu sync.Mutex
	traces := map[string][]string{} // handler name -> events
	mwID := 0
	expected := map[int][]int{} // handler index -> middleware ids in expected nesting order
	added := map[int]bool{}
	handles := map[int]*message.Handler{}
	subs := map[int]*lib.ScriptSub{}
	pubs := map[int]*lib.ScriptPub{}
	var routerLevelSoFar []struct{ id, pos int }
	pos := 0
	order := map[int][]struct{ id, pos int }{}
	var fwdSub *lib.ScriptSub
	var fwdOrder []struct{ id, pos int }

	mk := func(id int) message.HandlerMiddleware {
		return func(h message.HandlerFunc) message.HandlerFunc {
			return func(msg *message.Message) ([]*message.Message, error) {
				hn := msg.Metadata.Get("handler")
				mu.Lock()
				traces[hn] = append(traces[hn], fmt.Sprintf("enter %d", id))
				mu.Unlock()
				out, err := h(msg)
				mu.Lock()
				traces[hn] = append(traces[hn], fmt.Sprintf("leave %d", id))
				mu.Unlock()
				return out, err
			}
		}
	}
	for _, o := range p.Ops {
		switch o.Kind {
		case "R":
			var ms []message.HandlerMiddleware
			for i := 0; i < o.N; i++ {
				mwID++
				pos++
				routerLevelSoFar = append(routerLevelSoFar, struct{ id, pos int }{mwID, pos})
				ms = append(ms, mk(mwID))
			}
			router.AddMiddleware(ms...)
		case "H":
			idx := o.Handler
			name := p.Names[idx]
			subs[idx] = lib.NewScriptSub("")
			pubs[idx] = lib.NewScriptPub("")
			// the publish topic is any string, also the empty one: decorators belong to the handler's publisher, not to a topic
			pubTopic := []string{"out", ""}[idx%2]
			handles[idx] = router.AddHandler(name, "in", subs[idx], pubTopic, pubs[idx], func(msg *message.Message) ([]*message.Message, error) {
				hn := msg.Metadata.Get("handler")
				mu.Lock()
				traces[hn] = append(traces[hn], "handler "+name)
				mu.Unlock()
				// 1..3 outputs, distinct objects that share one UUID (or have none): decorators act on every outgoing message
				outs := []*message.Message{}
				for k := 0; k <= idx%3; k++ {
					outs = append(outs, message.NewMessage([]string{"out", ""}[idx%2], []byte(fmt.Sprint(k))))
				}
				return outs, nil
			})
			added[idx] = true
		case "M":
			var ms []message.HandlerMiddleware
			for i := 0; i < o.N; i++ {
				mwID++
				pos++
				order[o.Handler] = append(order[o.Handler], struct{ id, pos int }{mwID, pos})
				ms = append(ms, mk(mwID))
			}
			handles[o.Handler].AddMiddleware(ms...)
		case "D":
			// an AddHandler call the router refuses (the name is taken; it panics, the caller recovers): it changes nothing
			func() {
				defer func() { recover() }()
				router.AddNoPublisherHandler(p.Names[o.Handler], "in-dup", lib.NewScriptSub(""), func(*message.Message) error { return nil })
			}()
		case "F":
			// a component that puts its own handler on this router: what it was configured with belongs to that handler
			var ms []message.HandlerMiddleware
			for i := 0; i < o.N; i++ {
				mwID++
				pos++
				fwdOrder = append(fwdOrder, struct{ id, pos int }{mwID, pos})
				ms = append(ms, mk(mwID))
			}
			fwdSub = lib.NewScriptSub("")
			if _, err := forwarder.NewForwarder(fwdSub, lib.NewScriptPub(""), watermill.NopLogger{}, forwarder.Config{Router: router, AckWhenCannotUnwrap: true, Middlewares: ms}); err != nil {
				return "harness: " + err.Error()
			}
		}
	}
	pluginMW := 0
	if p.Plugin == 2 {
		// registered by the plugin when Run starts: after everything registered before Run, before any handler is started
		mwID++
		pos++
		pluginMW = mwID
		routerLevelSoFar = append(routerLevelSoFar, struct{ id, pos int }{mwID, pos})
	}
	// expected nesting = router-level + own, by global registration position
	for idx := range added {
		all := append(append([]struct{ id, pos int }{}, routerLevelSoFar...), order[idx]...)
		for i := 0; i < len(all); i++ {
			for j := i + 1; j < len(all); j++ {
				if all[j].pos < all[i].pos {
					all[i], all[j] = all[j], all[i]
				}
			}
		}
		for _, e := range all {
			expected[idx] = append(expected[idx], e.id)
		}
	}
	// decorators
	decID := 0
	wantPub, wantSub := "", ""
	registerDecorators := func() {
		for _, n := range p.PubDecs {
			var ds []message.PublisherDecorator
			for i := 0; i < n; i++ {
				decID++
				id := decID
				wantPub += fmt.Sprintf("%d,", id)
				ds = append(ds, message.MessageTransformPublisherDecorator(func(m *message.Message) {
					m.Metadata.Set("pubdec", m.Metadata.Get("pubdec")+fmt.Sprintf("%d,", id))
				}))
			}
			router.AddPublisherDecorators(ds...)
		}
		for _, n := range p.SubDecs {
			var ds []message.SubscriberDecorator
			for i := 0; i < n; i++ {
				decID++
				id := decID
				wantSub += fmt.Sprintf("%d,", id)
				ds = append(ds, message.MessageTransformSubscriberDecorator(func(m *message.Message) {
					m.Metadata.Set("subdec", m.Metadata.Get("subdec")+fmt.Sprintf("%d,", id))
				}))
			}
			router.AddSubscriberDecorators(ds...)
		}
	}
	if p.Plugin == 0 {
		registerDecorators()
	} else {
		router.AddPlugin(func(r *message.Router) error {
			registerDecorators()
			if pluginMW != 0 {
				r.AddMiddleware(mk(pluginMW))
			}
			return nil
		})
	}
	if len(added) == 0 {
		return ""
	}
	go router.Run(context.Background())
	select {
	case <-router.Running():
	case <-time.After(lib.Live):
		return "harness: router did not start"
	}
	defer func() {
		done := make(chan struct{})
		go func() { router.Close(); close(done) }()
		select {
		case <-done:
		case <-time.After(lib.Live):
		}
	}()
	subdecSeen := map[int]string{}
	for idx := range added {
		if !subs[idx].WaitSubs(1, lib.Live) {
			return "harness: no subscription for handler"
		}
		m := message.NewMessage("in", nil)
		m.Metadata.Set("handler", p.Names[idx])
		d, ok := subs[idx].Subs()[0].Emit(m, "", 0, lib.Live)
		if !ok {
			return "harness: router did not take the message"
		}
		acked, ok := d.Wait(2 * lib.Live)
		if !ok || !acked {
			return fmt.Sprintf("violation: message of handler %q not acked (settled=%v)", p.Names[idx], ok)
		}
		subdecSeen[idx] = m.Metadata.Get("subdec")
	}
	if fwdSub != nil {
		if !fwdSub.WaitSubs(1, lib.Live) {
			return "harness: no subscription for the forwarder"
		}
		m := message.NewMessage("in", []byte("not an envelope"))
		m.Metadata.Set("handler", "events_forwarder")
		d, ok := fwdSub.Subs()[0].Emit(m, "", 0, lib.Live)
		if !ok {
			return "harness: router did not take the forwarder's message"
		}
		if acked, ok := d.Wait(2 * lib.Live); !ok || !acked {
			return fmt.Sprintf("violation: message of the forwarder's handler not acked (settled=%v)", ok)
		}
		all := append(append([]struct{ id, pos int }{}, routerLevelSoFar...), fwdOrder...)
		sort.Slice(all, func(i, j int) bool { return all[i].pos < all[j].pos })
		var want []string
		for _, e := range all {
			want = append(want, fmt.Sprintf("enter %d", e.id))
		}
		for i := len(all) - 1; i >= 0; i-- {
			want = append(want, fmt.Sprintf("leave %d", all[i].id))
		}
		mu.Lock()
		got := strings.Join(traces["events_forwarder"], " ")
		mu.Unlock()
		if got != strings.Join(want, " ") {
			return fmt.Sprintf("violation: the forwarder's handler ran [%s], expected [%s]", got, strings.Join(want, " "))
		}
	}
	mu.Lock()
	defer mu.Unlock()
	for idx := range added {
		name := p.Names[idx]
		var want []string
		for _, id := range expected[idx] {
			want = append(want, fmt.Sprintf("enter %d", id))
		}
		want = append(want, "handler "+name)
		for i := len(expected[idx]) - 1; i >= 0; i-- {
			want = append(want, fmt.Sprintf("leave %d", expected[idx][i]))
		}
		got := traces[name]
		if strings.Join(got, " ") != strings.Join(want, " ") {
			return fmt.Sprintf("violation: handler %q ran [%s], expected [%s]", name, strings.Join(got, " "), strings.Join(want, " "))
		}
		calls := pubs[idx].Calls()
		if len(calls) != 1 || len(calls[0].Snaps) != idx%3+1 {
			return fmt.Sprintf("violation: handler %q: %d publish calls", name, len(calls))
		}
		for k, sn := range calls[0].Snaps {
			if got := sn.Meta["pubdec"]; got != wantPub {
				return fmt.Sprintf("violation: handler %q: publisher decorators acted on output %d of %d in order [%s], registered [%s]", name, k, len(calls[0].Snaps), got, wantPub)
			}
		}
		if got := subdecSeen[idx]; got != wantSub {
			return fmt.Sprintf("violation: handler %q: subscriber decorators acted in order [%s], registered [%s]", name, got, wantSub)
		}
	}
	return ""
}

func mixes(p program) bool {
	hasR := false
	hs := map[int]bool{}
	for _, o := range p.Ops {
		if o.Kind == "R" {
			hasR = true
		}
		if o.Kind == "M" {
			hs[o.Handler] = true
		}
	}
	nH := 0
	for _, o := range p.Ops {
		if o.Kind == "H" {
			nH++
		}
	}
	decs := 0
	for _, n := range append(append([]int{}, p.PubDecs...), p.SubDecs...) {
		decs += n
	}
	return (hasR && len(hs) >= 2) || (decs >= 2 && nH >= 2)
}

func TestExhaustiveRegistrations(t *testing.T) {
	maxRegs := lib.Pick(5, 7)
	only := lib.OnlyCase()
	total := 0
	namesVariants := [][]string{{"A", "B"}, {"A", ""}, {"", "B"}}
	var rec func(ops []regOp, regs int, addedA, addedB bool)
	check := func(ops []regOp) {
		for vi, names := range namesVariants {
			p := program{Names: names, Ops: append([]regOp(nil), ops...)}
			// decorators: a fixed non-trivial list so that every enumerated program also checks decorator order over both handlers
			p.PubDecs, p.SubDecs = []int{2, 1}, []int{1, 2}
			id := p.canon()
			if only != "" && only != id {
				continue
			}
			_ = vi
			total++
			if e := run(p); e != "" {
				lib.Violation(t, "TestExhaustiveRegistrations", id, map[string]any{"program": p, "error": e})
			}
			lib.Case(id, mixes(p), "exhaustive")
			if total%211 == 0 {
				lib.Sample(map[string]any{"test": "ExhaustiveRegistrations", "program": p.canon()})
			}
		}
	}
	rec = func(ops []regOp, regs int, addedA, addedB bool) {
		if t.Failed() && only == "" {
			return
		}
		if addedA && addedB {
			check(ops)
		}
		if regs < maxRegs {
			rec(append(ops, regOp{"R", 0, 1}), regs+1, addedA, addedB)
			if addedA {
				rec(append(ops, regOp{"M", 0, 1}), regs+1, addedA, addedB)
			}
			if addedB {
				rec(append(ops, regOp{"M", 1, 1}), regs+1, addedA, addedB)
			}
		}
		if !addedA {
			rec(append(ops, regOp{"H", 0, 0}), regs, true, addedB)
		}
		if !addedB {
			rec(append(ops, regOp{"H", 1, 0}), regs, addedA, true)
		}
	}
	rec(nil, 0, false, false)
	lib.Exhaustive(fmt.Sprintf("registration programs with <=%d registrations over {router-level, A, B} x AddHandler positions (naming variants: %s)", maxRegs,
		"all three"), only == "" && !t.Failed())
	lib.Count("exhaustive_programs", int64(total))
}

func TestRandomRegistrations(t *testing.T) {
	rapid.Check(t, func(t *rapid.T) {
		nh := rapid.IntRange(1, 4).Draw(t, "handlers")
		p := program{}
		emptyIdx := rapid.IntRange(-3, nh-1).Draw(t, "emptyNamedHandler")
		for i := 0; i < nh; i++ {
			n := fmt.Sprintf("h%d", i)
			if i == emptyIdx {
				n = ""
			}
			p.Names = append(p.Names, n)
		}
		added := map[int]bool{}
		fwd := false
		p.Plugin = rapid.SampledFrom([]int{0, 0, 1, 2}).Draw(t, "decoratorsViaPlugin")
		nops := rapid.IntRange(0, 20).Draw(t, "registrations")
		for len(p.Ops) < nops+nh {
			notAdded := []int{}
			for i := 0; i < nh; i++ {
				if !added[i] {
					notAdded = append(notAdded, i)
				}
			}
			k := rapid.IntRange(0, 5).Draw(t, "opKind")
			switch {
			case k == 5 && len(added) > 0:
				hs := []int{}
				for i := 0; i < nh; i++ {
					if added[i] {
						hs = append(hs, i)
					}
				}
				p.Ops = append(p.Ops, regOp{"D", hs[rapid.IntRange(0, len(hs)-1).Draw(t, "refusedDuplicateOf")], 0})
			case k == 4 && !fwd:
				fwd = true
				p.Ops = append(p.Ops, regOp{"F", 0, rapid.IntRange(1, 2).Draw(t, "n")})
			case k == 0 && len(notAdded) > 0:
				h := notAdded[rapid.IntRange(0, len(notAdded)-1).Draw(t, "addHandler")]
				added[h] = true
				p.Ops = append(p.Ops, regOp{"H", h, 0})
			case k == 1 || len(added) == 0:
				p.Ops = append(p.Ops, regOp{"R", 0, rapid.IntRange(1, 2).Draw(t, "n")})
			default:
				hs := []int{}
				for i := 0; i < nh; i++ {
					if added[i] {
						hs = append(hs, i)
					}
				}
				p.Ops = append(p.Ops, regOp{"M", hs[rapid.IntRange(0, len(hs)-1).Draw(t, "onHandler")], rapid.IntRange(1, 2).Draw(t, "n")})
			}
		}
		for i := 0; i < nh; i++ {
			if !added[i] {
				p.Ops = append(p.Ops, regOp{"H", i, 0})
			}
		}
		left := 5
		for left > 0 && rapid.Bool().Draw(t, "morePubDecs") {
			n := rapid.IntRange(1, min(3, left)).Draw(t, "pubDecCall")
			p.PubDecs = append(p.PubDecs, n)
			left -= n
		}
		left = 5
		for left > 0 && rapid.Bool().Draw(t, "moreSubDecs") {
			n := rapid.IntRange(1, min(3, left)).Draw(t, "subDecCall")
			p.SubDecs = append(p.SubDecs, n)
			left -= n
		}
		if e := run(p); e != "" {
			t.Fatalf("%s\nprogram: %s", e, p.canon())
		}
		lib.Case(p.canon(), mixes(p), "random")
		lib.Sample(map[string]any{"test": "RandomRegistrations", "program": p.canon()})
	})
}

func min(a, b int) int {
	if a < b {
		return a
	}
	return b
}

// ---------- registrations after Run: handlers started later run everything registered before they start ----------

func TestLateRegistrations(t *testing.T) {
	rapid.Check(t, func(t *rapid.T) {
		router, err := message.NewRouter(message.RouterConfig{CloseTimeout: 5 * time.Second}, watermill.NopLogger{})
		if err != nil {
			t.Fatalf("NewRouter: %v", err)
		}
		var mu sync.Mutex
		traces := map[string][]string{}
		id := 0
		mk := func() (int, message.HandlerMiddleware) {
			id++
			my := id
			return my, func(h message.HandlerFunc) message.HandlerFunc {
				return func(msg *message.Message) ([]*message.Message, error) {
					hn := msg.Metadata.Get("handler")
					mu.Lock()
					traces[hn] = append(traces[hn], fmt.Sprintf("enter %d", my))
					mu.Unlock()
					out, err := h(msg)
					mu.Lock()
					traces[hn] = append(traces[hn], fmt.Sprintf("leave %d", my))
					mu.Unlock()
					return out, err
				}
			}
		}
		var routerLevel []int
		addRouterLevel := func(label string) {
			n := rapid.IntRange(0, 3).Draw(t, label)
			var ms []message.HandlerMiddleware
			for i := 0; i < n; i++ {
				mid, m := mk()
				routerLevel = append(routerLevel, mid)
				ms = append(ms, m)
			}
			if len(ms) > 0 {
				if rapid.Bool().Draw(t, "oneCall") {
					router.AddMiddleware(ms...)
				} else {
					for _, m := range ms {
						router.AddMiddleware(m)
					}
				}
			}
		}
		// decorators registered before Run: each must act exactly once on every handler's messages, in the order added,
		// however often RunHandlers is called later for other handlers
		nDec := rapid.IntRange(0, 2).Draw(t, "decoratorsBeforeRun")
		wantPub, wantSub := "", ""
		decN := 0
		addDecorators := func(n int) {
			for d := 0; d < n; d++ {
				pd, sd := fmt.Sprintf("P%d,", decN), fmt.Sprintf("S%d,", decN)
				decN++
				wantPub, wantSub = wantPub+pd, wantSub+sd
				router.AddPublisherDecorators(message.MessageTransformPublisherDecorator(func(m *message.Message) { m.Metadata["pubdec"] += pd }))
				router.AddSubscriberDecorators(message.MessageTransformSubscriberDecorator(func(m *message.Message) { m.Metadata["subdec"] += sd }))
			}
		}
		addDecorators(nDec)
		type hT struct {
			name     string
			sub      *lib.ScriptSub
			pub      *lib.ScriptPub
			expected []int
			sawSub   string
			wantPub  string // the decorators registered before this handler was started, in order
			wantSub  string
			handle   *message.Handler
		}
		addHandler := func(name string) *hT {
			h := &hT{name: name, sub: lib.NewScriptSub(""), pub: lib.NewScriptPub("")}
			handle := router.AddHandler(name, "in", h.sub, "out", h.pub, func(msg *message.Message) ([]*message.Message, error) {
				mu.Lock()
				traces[name] = append(traces[name], "handler")
				h.sawSub = msg.Metadata["subdec"]
				mu.Unlock()
				return []*message.Message{message.NewMessage("out-of-"+name, nil)}, nil
			})
			h.handle = handle
			own := rapid.IntRange(0, 2).Draw(t, "ownMiddlewares")
			var ownIDs []int
			for i := 0; i < own; i++ {
				mid, m := mk()
				ownIDs = append(ownIDs, mid)
				handle.AddMiddleware(m)
			}
			// nesting = registration order over router-level (so far, plus those added before it starts) and own
			h.expected = ownIDs
			return h
		}
		probe := func(h *hT, all []int, checkTrace bool) {
			if !h.sub.WaitSubs(1, lib.Live) {
				t.Fatalf("harness: handler %s not subscribed", h.name)
			}
			m := message.NewMessage("m", nil)
			m.Metadata["handler"] = h.name
			d, ok := h.sub.Subs()[0].Emit(m, "", 0, lib.Live)
			if !ok {
				t.Fatalf("harness: message not taken")
			}
			if acked, settled := d.Wait(2 * lib.Live); !settled || !acked {
				t.Fatalf("violation: message of handler %s not acked", h.name)
			}
			ids := append(append([]int{}, all...), h.expected...)
			sort.Ints(ids)
			var want []string
			for _, i := range ids {
				want = append(want, fmt.Sprintf("enter %d", i))
			}
			want = append(want, "handler")
			for k := len(ids) - 1; k >= 0; k-- {
				want = append(want, fmt.Sprintf("leave %d", ids[k]))
			}
			mu.Lock()
			got := strings.Join(traces[h.name], " ")
			traces[h.name] = nil
			mu.Unlock()
			// (for a handler that was already running when later router-level middlewares were registered, whether those
			// apply to it is not demanded either way: only its decorators are judged then)
			if checkTrace && got != strings.Join(want, " ") {
				t.Fatalf("violation: handler %q (started after %d router-level registrations) ran [%s], expected [%s]", h.name, len(all), got, strings.Join(want, " "))
			}
			mu.Lock()
			sawSub := h.sawSub
			mu.Unlock()
			if sawSub != h.wantSub {
				t.Fatalf("violation: message of handler %q went through the subscriber decorators [%s], registered before it was started: [%s]", h.name, sawSub, h.wantSub)
			}
			calls := h.pub.Calls()
			if len(calls) == 0 || len(calls[len(calls)-1].Snaps) != 1 {
				t.Fatalf("violation: handler %q: output not published once (%d Publish calls)", h.name, len(calls))
			}
			if gotPub := calls[len(calls)-1].Snaps[0].Meta["pubdec"]; gotPub != h.wantPub {
				t.Fatalf("violation: output of handler %q went through the publisher decorators [%s], registered before it was started: [%s]", h.name, gotPub, h.wantPub)
			}
		}
		addRouterLevel("routerLevelBeforeRun")
		first := addHandler("first")
		first.wantPub, first.wantSub = wantPub, wantSub
		go router.Run(context.Background())
		select {
		case <-router.Running():
		case <-time.After(lib.Live):
			t.Fatalf("harness: router did not start")
		}
		defer func() {
			done := make(chan struct{})
			go func() { router.Close(); close(done) }()
			select {
			case <-done:
			case <-time.After(lib.Live):
			}
		}()
		probe(first, append([]int{}, routerLevel...), true)
		startedWith := map[*hT][]int{first: append([]int{}, routerLevel...)}
		running := []*hT{first}
		phases := rapid.IntRange(1, 3).Draw(t, "latePhases")
		canon := fmt.Sprintf("late|dec%d|%d|", nDec, len(routerLevel))
		for ph := 0; ph < phases; ph++ {
			if rapid.Bool().Draw(t, "handlerLevelOnlyThisPhase") {
				// no router-level registration in this phase
			} else {
				addRouterLevel("routerLevelLate")
			}
			// a handler may be stopped before the next ones are added: what belonged to it (or to handlers that are still
			// running) never shows up on a handler added later
			if len(running) >= 2 && rapid.IntRange(0, 2).Draw(t, "stopARunningHandlerFirst") == 0 {
				k := rapid.IntRange(0, len(running)-2).Draw(t, "stoppedHandler")
				victim := running[k]
				victim.handle.Stop()
				select {
				case <-victim.handle.Stopped():
				case <-time.After(lib.Live):
					t.Fatalf("harness: handler %s did not stop", victim.name)
				}
				time.Sleep(time.Millisecond) // let it deregister
				running = append(running[:k:k], running[k+1:]...)
			}
			// decorators may be added to a running router too: they act on the handlers that are started afterwards
			addDecorators(rapid.SampledFrom([]int{0, 0, 1, 2}).Draw(t, "decoratorsAddedWhileRunning"))
			n := rapid.IntRange(1, 2).Draw(t, "lateHandlers")
			var hs []*hT
			for i := 0; i < n; i++ {
				h := addHandler(fmt.Sprintf("late-%d-%d", ph, i))
				h.wantPub, h.wantSub = wantPub, wantSub
				hs = append(hs, h)
			}
			if err := router.RunHandlers(context.Background()); err != nil {
				t.Fatalf("RunHandlers: %v", err)
			}
			for _, h := range hs {
				probe(h, append([]int{}, routerLevel...), true)
				startedWith[h] = append([]int{}, routerLevel...)
			}
			// the handlers that were already running are untouched by that RunHandlers call
			for _, old := range running {
				probe(old, startedWith[old], false)
			}
			running = append(running, hs...)
			canon += fmt.Sprintf("%d:%d;", len(routerLevel), n)
		}
		lib.Case(canon, true, "late-registrations")
		lib.Sample(map[string]any{"test": "LateRegistrations", "case": canon})
	})
}

// ---------- several handlers on ONE subscriber that is itself a message-transform decorator ----------

func TestSharedDecoratedSubscriber(t *testing.T) {
	rapid.Check(t, func(t *rapid.T) {
		router, err := message.NewRouter(message.RouterConfig{CloseTimeout: 5 * time.Second}, watermill.NopLogger{})
		if err != nil {
			t.Fatalf("NewRouter: %v", err)
		}
		inner := lib.NewScriptSub("")
		tag := func(id string) func(*message.Message) {
			return func(m *message.Message) { m.Metadata["subdec"] = m.Metadata["subdec"] + id + "," }
		}
		shared, err := message.MessageTransformSubscriberDecorator(tag("user"))(inner)
		if err != nil {
			t.Fatalf("decorator: %v", err)
		}
		nd := rapid.IntRange(0, 3).Draw(t, "routerSubscriberDecorators")
		want := "user,"
		for i := 0; i < nd; i++ {
			id := fmt.Sprintf("r%d", i)
			want += id + ","
			router.AddSubscriberDecorators(message.MessageTransformSubscriberDecorator(tag(id)))
		}
		nh := rapid.IntRange(2, 4).Draw(t, "handlers")
		var mu sync.Mutex
		seen := map[string][]string{}
		for i := 0; i < nh; i++ {
			name := fmt.Sprintf("h%d", i)
			router.AddNoPublisherHandler(name, "topic-"+name, shared, func(m *message.Message) error {
				mu.Lock()
				seen[name] = append(seen[name], m.Metadata["subdec"]+"|"+message.HandlerNameFromCtx(m.Context()))
				mu.Unlock()
				return nil
			})
		}
		go router.Run(context.Background())
		select {
		case <-router.Running():
		case <-time.After(lib.Live):
			t.Fatalf("harness: router did not start")
		}
		defer func() {
			done := make(chan struct{})
			go func() { router.Close(); close(done) }()
			select {
			case <-done:
			case <-time.After(lib.Live):
			}
		}()
		rounds := rapid.IntRange(1, 2).Draw(t, "rounds")
		for r := 0; r < rounds; r++ {
			for _, sc := range inner.Subs() {
				m := message.NewMessage("m", nil)
				d, ok := sc.Emit(m, "", 0, lib.Live)
				if !ok {
					t.Fatalf("harness: message not taken")
				}
				if acked, settled := d.Wait(2 * lib.Live); !settled || !acked {
					t.Fatalf("violation: message on %s not acked", sc.Topic)
				}
			}
		}
		mu.Lock()
		defer mu.Unlock()
		for i := 0; i < nh; i++ {
			name := fmt.Sprintf("h%d", i)
			if len(seen[name]) != rounds {
				t.Fatalf("violation: handler %s handled %d messages, %d were sent on its topic", name, len(seen[name]), rounds)
			}
			for _, s := range seen[name] {
				if s != want+"|"+name {
					t.Fatalf("violation: handler %s saw decorators/context [%s], expected [%s|%s] (%d handlers share one message-transforming subscriber)", name, s, want, name, nh)
				}
			}
		}
		lib.Case(fmt.Sprintf("shared-sub|%d|%d|%d", nd, nh, rounds), true, "shared-decorated-subscriber")
		lib.Sample(map[string]any{"test": "SharedDecoratedSubscriber", "router_decorators": nd, "handlers": nh})
	})
}
