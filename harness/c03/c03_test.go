// C03 — Message Ack/Nack is a linearizable first-wins state machine.
package c03

import (
	"context"
	"fmt"
	"runtime"
	"strings"
	"sync"
	"testing"
	"time"

	"github.com/ThreeDotsLabs/watermill/message"
	"github.com/ThreeDotsLabs/watermill/verifharness/lib"
	"github.com/anishathalye/porcupine"
	"pgregory.net/rapid"
)

func TestMain(m *testing.M) {
	lib.Extra("rule", "(a) bounded-exhaustive: every sequence over {Ack,Nack,probe Acked(),probe Nacked()} up to the length bound on NewMessage, Copy-of-settled and zero-value messages, "+
		"checked step by step against the 3-state model; non-trivial = sequence contains both Ack and Nack. "+
		"(b) rapid-generated concurrent histories (2..16 goroutines behind a barrier, 1..6 ops each, generated Gosched padding, GOMAXPROCS varied) checked with porcupine for linearizability against the same model, "+
		"plus winner agreement and channel state after the join; non-trivial = at least one Ack and one Nack overlap in (logical) real time. Distinct by canonical encoding of the program.")
	lib.Extra("assumptions", []string{
		"on zero-value messages Acked()/Nacked() are probed only when no Ack/Nack runs concurrently (the lazily substituted channel field is read without the mutex by design; the property only promises Ack/Nack do not panic there)",
		"call/return stamps come from one atomic counter, so stamp order is consistent with real time",
		"race detector enabled: a report with a watermill frame on top counts as a violation",
	})
	lib.Main(m)
}

type op uint8

const (
	opAck op = iota
	opNack
	opProbeAck
	opProbeNack
)

var opNames = []string{"Ack", "Nack", "Acked?", "Nacked?"}

type state uint8

const (
	unsettled state = iota
	acked
	nacked
)

// model: returns expected output and next state
func step(s state, o op) (bool, state) {
	switch o {
	case opAck:
		if s == nacked {
			return false, s
		}
		return true, acked
	case opNack:
		if s == acked {
			return false, s
		}
		return true, nacked
	case opProbeAck:
		return s == acked, s
	default:
		return s == nacked, s
	}
}

func closed(ch <-chan struct{}) bool {
	select {
	case <-ch:
		return true
	default:
		return false
	}
}

func apply(m *message.Message, o op) bool {
	switch o {
	case opAck:
		return m.Ack()
	case opNack:
		return m.Nack()
	case opProbeAck:
		return closed(m.Acked())
	default:
		return closed(m.Nacked())
	}
}

var kinds = []string{"new", "copy-of-acked", "copy-of-nacked", "zero", "new-with-ended-context"}

func newMsg(kind string) *message.Message {
	switch kind {
	case "new":
		return message.NewMessage("u", []byte("p"))
	case "new-with-ended-context":
		// a message whose context is already over (a consumer that settles after its deadline): settlement is about the
		// message, not about its context
		o := message.NewMessage("u", []byte("p"))
		ctx, cancel := context.WithCancel(context.Background())
		cancel()
		o.SetContext(ctx)
		return o
	case "copy-of-acked":
		o := message.NewMessage("u", []byte("p"))
		o.Ack()
		return o.Copy()
	case "copy-of-nacked":
		o := message.NewMessage("u", []byte("p"))
		o.Nack()
		return o.Copy()
	default:
		return &message.Message{}
	}
}

func seqString(seq []op) string {
	var b strings.Builder
	for _, o := range seq {
		b.WriteString(opNames[o])
		b.WriteByte(' ')
	}
	return b.String()
}

func runSeq(kind string, seq []op) (err string) {
	defer func() {
		if r := recover(); r != nil {
			err = fmt.Sprintf("panic: %v", r)
		}
	}()
	m := newMsg(kind)
	s := unsettled
	for i, o := range seq {
		want, ns := step(s, o)
		got := apply(m, o)
		if got != want {
			return fmt.Sprintf("step %d %s: got %v, model says %v (state %d)", i, opNames[o], got, want, s)
		}
		s = ns
		// after every step: exactly the matching channel is closed, never both
		a, n := closed(m.Acked()), closed(m.Nacked())
		if a != (s == acked) || n != (s == nacked) {
			return fmt.Sprintf("after step %d %s: Acked closed=%v Nacked closed=%v, model state %d", i, opNames[o], a, n, s)
		}
	}
	return ""
}

func TestExhaustiveSequences(t *testing.T) {
	maxLen := lib.Pick(8, 10)
	only := lib.OnlyCase()
	done := make(chan struct{})
	var total, nontriv int64
	go func() {
		defer close(done)
		for _, kind := range kinds {
			for n := 0; n <= maxLen; n++ {
				seq := make([]op, n)
				var rec func(i int, hasAck, hasNack bool)
				rec = func(i int, hasAck, hasNack bool) {
					if i == n {
						id := kind + ":" + seqString(seq)
						if only != "" && only != id {
							return
						}
						total++
						if e := runSeq(kind, seq); e != "" {
							lib.Violation(t, "TestExhaustiveSequences", id, map[string]any{"kind": kind, "sequence": seqString(seq), "error": e})
						}
						nt := hasAck && hasNack
						if nt {
							nontriv++
						}
						// record compactly: every case individually would dominate run time; batch below
						if total%997 == 0 {
							lib.Sample(map[string]any{"test": "ExhaustiveSequences", "kind": kind, "sequence": seqString(seq)})
						}
						lib.Case(id, nt)
						return
					}
					for o := opAck; o <= opProbeNack; o++ {
						seq[i] = o
						rec(i+1, hasAck || o == opAck, hasNack || o == opNack)
						if t.Failed() && only == "" {
							return
						}
					}
				}
				rec(0, false, false)
			}
		}
	}()
	select {
	case <-done:
	case <-time.After(10 * time.Minute):
		t.Fatalf("violation: enumeration did not finish: some Ack/Nack/Acked/Nacked call blocks")
	}
	lib.Exhaustive(fmt.Sprintf("sequences over 4 ops up to length %d on %d message kinds", maxLen, len(kinds)), only == "" && !t.Failed())
	lib.Count("exhaustive_sequences", total)
	lib.Count("exhaustive_sequences_with_ack_and_nack", nontriv)
}

// ---- concurrent histories ----

type hop struct {
	o   op
	pad int
}

type regInput struct{ o op }

var model = porcupine.Model{
	Init: func() interface{} { return unsettled },
	Step: func(st, in, out interface{}) (bool, interface{}) {
		want, ns := step(st.(state), in.(regInput).o)
		return want == out.(bool), ns
	},
	Equal: func(a, b interface{}) bool { return a.(state) == b.(state) },
	DescribeOperation: func(in, out interface{}) string {
		return fmt.Sprintf("%s -> %v", opNames[in.(regInput).o], out)
	},
}

func TestConcurrentHistories(t *testing.T) {
	defer runtime.GOMAXPROCS(runtime.GOMAXPROCS(0))
	rapid.Check(t, func(t *rapid.T) {
		kind := rapid.SampledFrom(kinds).Draw(t, "kind")
		procs := rapid.SampledFrom([]int{1, 2, 4, 16}).Draw(t, "gomaxprocs")
		ng := rapid.IntRange(2, 16).Draw(t, "goroutines")
		zero := kind == "zero"
		progs := make([][]hop, ng)
		canon := fmt.Sprintf("%s|", kind)
		// half of the cases are bursts: every goroutine settles the same way and looks at the channel right away, so that
		// the moment between "decided" and "channel closed" of the first settlement is probed from many sides at once
		shape := rapid.SampledFrom([]string{"random", "random", "burst-ack", "burst-nack"}).Draw(t, "shape")
		if zero && shape != "random" {
			shape = "random" // zero-value messages have no channels to probe (see assumptions)
		}
		for g := range progs {
			if shape != "random" {
				settle, probe := opAck, opProbeAck
				if shape == "burst-nack" {
					settle, probe = opNack, opProbeNack
				}
				progs[g] = []hop{{o: settle}, {o: probe}}
				canon += shape + ";"
				continue
			}
			n := rapid.IntRange(1, 6).Draw(t, "nops")
			for i := 0; i < n; i++ {
				maxOp := int(opProbeNack)
				if zero {
					maxOp = int(opNack) // see assumptions
				}
				h := hop{o: op(rapid.IntRange(0, maxOp).Draw(t, "op")), pad: rapid.IntRange(0, 3).Draw(t, "pad")}
				progs[g] = append(progs[g], h)
				canon += fmt.Sprintf("%d.%d,", h.o, h.pad)
			}
			canon += ";"
		}
		runtime.GOMAXPROCS(procs)
		m := newMsg(kind)
		var mu sync.Mutex
		var ops []porcupine.Operation
		var panics []string
		start := make(chan struct{})
		var wg sync.WaitGroup
		for g := range progs {
			wg.Add(1)
			go func(g int) {
				defer wg.Done()
				defer func() {
					if r := recover(); r != nil {
						mu.Lock()
						panics = append(panics, fmt.Sprintf("goroutine %d: %v", g, r))
						mu.Unlock()
					}
				}()
				local := make([]porcupine.Operation, 0, len(progs[g]))
				<-start
				for _, h := range progs[g] {
					for i := 0; i < h.pad; i++ {
						runtime.Gosched()
					}
					call := lib.Tick()
					out := apply(m, h.o)
					ret := lib.Tick()
					local = append(local, porcupine.Operation{ClientId: g, Input: regInput{h.o}, Call: call, Output: out, Return: ret})
				}
				mu.Lock()
				ops = append(ops, local...)
				mu.Unlock()
			}(g)
		}
		close(start)
		joined := make(chan struct{})
		go func() { wg.Wait(); close(joined) }()
		select {
		case <-joined:
		case <-time.After(lib.Live):
			t.Fatalf("violation: Ack/Nack/Acked/Nacked calls did not return within %v (a call blocks)", lib.Live)
		}
		if len(panics) > 0 {
			t.Fatalf("violation: panic in Ack/Nack: %v", panics)
		}
		res := porcupine.CheckOperations(model, ops)
		if !res {
			t.Fatalf("violation: history is not linearizable w.r.t. the first-wins model: %s", describe(ops))
		}
		// after the join
		var ackTrue, ackFalse, nackTrue, nackFalse int
		for _, o := range ops {
			switch o.Input.(regInput).o {
			case opAck:
				if o.Output.(bool) {
					ackTrue++
				} else {
					ackFalse++
				}
			case opNack:
				if o.Output.(bool) {
					nackTrue++
				} else {
					nackFalse++
				}
			}
		}
		if ackTrue > 0 && nackTrue > 0 {
			t.Fatalf("violation: both an Ack and a Nack returned true: %s", describe(ops))
		}
		if (ackTrue > 0 && ackFalse > 0) || (nackTrue > 0 && nackFalse > 0) {
			t.Fatalf("violation: callers disagree on the winner: %s", describe(ops))
		}
		a, n := closed(m.Acked()), closed(m.Nacked())
		if a && n {
			t.Fatalf("violation: both Acked() and Nacked() are closed")
		}
		if a != (ackTrue > 0) || n != (nackTrue > 0) {
			t.Fatalf("violation: channel state (acked=%v nacked=%v) does not match the winner (ackTrue=%d nackTrue=%d)", a, n, ackTrue, nackTrue)
		}
		// repeated calls change nothing
		if a && (!m.Ack() || m.Nack()) {
			t.Fatalf("violation: after the join (acked) Ack/Nack do not return true/false")
		}
		if n && (m.Ack() || !m.Nack()) {
			t.Fatalf("violation: after the join (nacked) Ack/Nack do not return false/true")
		}
		// non-triviality: an Ack and a Nack overlap
		overlap := false
		for _, x := range ops {
			if x.Input.(regInput).o != opAck {
				continue
			}
			for _, y := range ops {
				if y.Input.(regInput).o == opNack && x.Call < y.Return && y.Call < x.Return {
					overlap = true
				}
			}
		}
		cls := []string{"hist:" + kind}
		if overlap {
			cls = append(cls, "hist:ack-nack-overlap")
		}
		lib.Case(canon, overlap, cls...)
		if overlap {
			lib.Sample(map[string]any{"test": "ConcurrentHistories", "kind": kind, "gomaxprocs": procs, "history": describe(ops)})
		}
	})
}

func describe(ops []porcupine.Operation) string {
	var b strings.Builder
	for _, o := range ops {
		fmt.Fprintf(&b, "[g%d %s=%v @%d..%d] ", o.ClientId, opNames[o.Input.(regInput).o], o.Output, o.Call, o.Return)
	}
	return b.String()
}

// Zero-value messages (built without the constructor): Acked()/Nacked() read the lazily substituted
// channel field without the mutex by design, so this test runs WITHOUT the race detector and does not
// judge the probes made during the race. It checks what the property promises there: no call panics or
// blocks, all callers agree on the winner, and after the join exactly the winner's channel is closed -
// reading a channel must never change the outcome.
func TestZeroValueConcurrentReaders(t *testing.T) {
	defer runtime.GOMAXPROCS(runtime.GOMAXPROCS(0))
	rapid.Check(t, func(t *rapid.T) {
		procs := rapid.SampledFrom([]int{2, 4, 16}).Draw(t, "gomaxprocs")
		settlers := rapid.IntRange(1, 4).Draw(t, "settlers")
		readers := rapid.IntRange(1, 6).Draw(t, "readers")
		rounds := rapid.IntRange(50, 400).Draw(t, "rounds")
		kinds := make([]op, settlers)
		for i := range kinds {
			kinds[i] = op(rapid.IntRange(0, 1).Draw(t, "settleOp"))
		}
		runtime.GOMAXPROCS(procs)
		for r := 0; r < rounds; r++ {
			m := &message.Message{}
			start := make(chan struct{})
			var wg sync.WaitGroup
			results := make([]bool, settlers)
			panics := make(chan string, settlers+readers)
			for i := 0; i < settlers; i++ {
				wg.Add(1)
				go func(i int) {
					defer wg.Done()
					defer func() {
						if p := recover(); p != nil {
							panics <- fmt.Sprint(p)
						}
					}()
					<-start
					results[i] = apply(m, kinds[i])
				}(i)
			}
			for i := 0; i < readers; i++ {
				wg.Add(1)
				go func(i int) {
					defer wg.Done()
					defer func() {
						if p := recover(); p != nil {
							panics <- fmt.Sprint(p)
						}
					}()
					<-start
					for k := 0; k < 3; k++ {
						closed(m.Acked())
						closed(m.Nacked())
					}
				}(i)
			}
			close(start)
			done := make(chan struct{})
			go func() { wg.Wait(); close(done) }()
			select {
			case <-done:
			case <-time.After(lib.Live):
				t.Fatalf("violation: calls on a zero-value message did not return")
			}
			select {
			case p := <-panics:
				t.Fatalf("violation: panic on a zero-value message: %s", p)
			default:
			}
			ackWon, nackWon := false, false
			for i, res := range results {
				if res && kinds[i] == opAck {
					ackWon = true
				}
				if res && kinds[i] == opNack {
					nackWon = true
				}
			}
			if ackWon && nackWon {
				t.Fatalf("violation: an Ack and a Nack both returned true on one message")
			}
			a, n := closed(m.Acked()), closed(m.Nacked())
			if a != ackWon || n != nackWon {
				t.Fatalf("violation: after the join Acked closed=%v Nacked closed=%v, but Ack won=%v Nack won=%v (settlers %v, %d concurrent readers of Acked()/Nacked())", a, n, ackWon, nackWon, kinds, readers)
			}
		}
		lib.Case(fmt.Sprintf("zero-readers|%d|%v|%d|%d", procs, kinds, readers, rounds), true, "zero-value-concurrent-readers")
		lib.Sample(map[string]any{"test": "ZeroValueConcurrentReaders", "settlers": fmt.Sprint(kinds), "readers": readers, "rounds": rounds})
	})
}

// ---------- copies taken WHILE the original is being settled ----------

// Copy() is legal at any time (GoChannel copies a message per delivery while other deliveries are being settled). A copy is
// a fresh, unsettled message whatever the original is going through at that moment: its first Ack/Nack wins and returns,
// and it starts with both channels open.
func TestCopyDuringSettlement(t *testing.T) {
	defer runtime.GOMAXPROCS(runtime.GOMAXPROCS(0))
	rapid.Check(t, func(t *rapid.T) {
		procs := rapid.SampledFrom([]int{2, 4, 16}).Draw(t, "gomaxprocs")
		settlers := rapid.IntRange(1, 8).Draw(t, "settlersOfTheOriginal")
		copiers := rapid.IntRange(1, 8).Draw(t, "copiers")
		perCopier := rapid.IntRange(1, 8).Draw(t, "copiesPerCopier")
		ackFirst := rapid.Bool().Draw(t, "copiesAreAcked")
		zero := rapid.IntRange(0, 3).Draw(t, "zeroValueOriginal") == 0
		runtime.GOMAXPROCS(procs)
		orig := message.NewMessage("u", []byte("p"))
		orig.Metadata["k"] = "v"
		if zero {
			orig = &message.Message{UUID: "u"}
		}
		start := make(chan struct{})
		var wg sync.WaitGroup
		var mu sync.Mutex
		var problems []string
		bad := func(f string, a ...any) { mu.Lock(); problems = append(problems, fmt.Sprintf(f, a...)); mu.Unlock() }
		for s := 0; s < settlers; s++ {
			wg.Add(1)
			go func(s int) {
				defer wg.Done()
				<-start
				for i := 0; i < 4; i++ {
					if (s+i)%2 == 0 {
						orig.Ack()
					} else {
						orig.Nack()
					}
				}
			}(s)
		}
		var copies []*message.Message
		for c := 0; c < copiers; c++ {
			wg.Add(1)
			go func() {
				defer wg.Done()
				<-start
				for i := 0; i < perCopier; i++ {
					cp := orig.Copy()
					mu.Lock()
					copies = append(copies, cp)
					mu.Unlock()
				}
			}()
		}
		close(start)
		wg.Wait()
		// every copy behaves as a fresh message
		done := make(chan struct{})
		go func() {
			defer close(done)
			for i, cp := range copies {
				if a, n := lib.Settled(cp); a || n {
					bad("copy #%d taken during the settlement of its original is born settled (acked=%v nacked=%v)", i, a, n)
					continue
				}
				var first, second bool
				if ackFirst {
					first, second = cp.Ack(), cp.Nack()
				} else {
					first, second = cp.Nack(), cp.Ack()
				}
				a, n := lib.Settled(cp)
				if !first || second || a != ackFirst || n == ackFirst {
					bad("copy #%d: first settlement returned %v, the opposite one %v, acked=%v nacked=%v (first was Ack: %v)", i, first, second, a, n, ackFirst)
				}
			}
		}()
		select {
		case <-done:
		case <-time.After(lib.Live):
			t.Fatalf("violation: Ack/Nack on a copy that was taken while its original was being settled did not return within %v (a call blocks)", lib.Live)
		}
		if len(problems) > 0 {
			t.Fatalf("violation: %s", strings.Join(problems, "; "))
		}
		lib.Case(fmt.Sprintf("copy-during|%d|%d|%d|%v|%v|%d", settlers, copiers, perCopier, ackFirst, zero, procs), true, "copy-during-settlement")
		lib.Sample(map[string]any{"test": "CopyDuringSettlement", "settlers": settlers, "copiers": copiers, "copies_each": perCopier, "zero_value_original": zero})
	})
}

// ---------- the very first settlement of a constructor-less message in a process ----------

// Constructor-less messages share process-wide state (one pre-closed channel). What a settlement makes observable must not
// depend on what happened to OTHER messages earlier in the process, so these two run as the first and only test of their
// own process (one driver step each): the first zero-value settlement of the process is a Nack, respectively an Ack.
func firstSettlementInProcess(t *testing.T, nackFirst bool) {
	m := &message.Message{}
	var first, again, opposite bool
	if nackFirst {
		first, again, opposite = m.Nack(), m.Nack(), m.Ack()
	} else {
		first, again, opposite = m.Ack(), m.Ack(), m.Nack()
	}
	if !first || !again || opposite {
		t.Fatalf("violation: first zero-value settlement in the process (nack first: %v): returned %v, repeated %v, opposite %v; want true, true, false", nackFirst, first, again, opposite)
	}
	a, n := lib.Settled(m)
	if a == nackFirst || n != nackFirst {
		t.Fatalf("violation: first zero-value settlement in the process (nack first: %v): Acked() closed=%v Nacked() closed=%v; exactly the matching channel must be closed", nackFirst, a, n)
	}
	// a second constructor-less message, settled the other way round, and the first one is still as it was
	o := &message.Message{}
	if nackFirst {
		o.Ack()
	} else {
		o.Nack()
	}
	oa, on := lib.Settled(o)
	a2, n2 := lib.Settled(m)
	if oa != nackFirst || on == nackFirst || a2 != a || n2 != n {
		t.Fatalf("violation: settling a second constructor-less message changed what is observed: first (acked=%v nacked=%v -> acked=%v nacked=%v), second (acked=%v nacked=%v)", a, n, a2, n2, oa, on)
	}
	lib.Case(fmt.Sprintf("first-in-process|nackFirst=%v", nackFirst), true, "first-zero-value-settlement-in-process")
	lib.Case(fmt.Sprintf("first-in-process|second-message|nackFirst=%v", nackFirst), true, "first-zero-value-settlement-in-process")
	lib.Sample(map[string]any{"test": "FirstZeroValueSettlementInProcess", "nack_first": nackFirst})
}

func TestZeroValueNackFirstInProcess(t *testing.T) { firstSettlementInProcess(t, true) }
func TestZeroValueAckFirstInProcess(t *testing.T)  { firstSettlementInProcess(t, false) }
