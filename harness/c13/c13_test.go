// C13 — Poison queue: a failed message is either in the poison topic or still failing.
package c13

import (
	"context"
	stderrors "errors"
	"fmt"
	"strings"
	"sync"
	"testing"
	"time"

	"github.com/ThreeDotsLabs/watermill"
	"github.com/ThreeDotsLabs/watermill/message"
	"github.com/ThreeDotsLabs/watermill/message/router/middleware"
	"github.com/ThreeDotsLabs/watermill/verifharness/lib"
	multierror "github.com/hashicorp/go-multierror"
	"github.com/pkg/errors"
	"pgregory.net/rapid"
)

func TestMain(m *testing.M) {
	lib.Extra("rule", "rapid-generated cases: message (arbitrary UTF-8 metadata incl. pre-existing poison keys) x handler result {success(+outputs), error plain/pkg-errors-wrapped/%w-wrapped/multierror/empty text, with or without outputs} "+
		"x filter {PoisonQueue, always, never, errors.Is sentinel, identity with the returned error, identity with the root cause, text match} x poison publisher outcome {accept, error}, stand-alone and inside a running Router (handler names incl. empty). "+
		"Oracle = model: filter(e) decides on the error exactly as returned; exactly one poison Publish with same UUID/payload and metadata = original + four poison keys; error cleared only after a successful publish; pass-through otherwise. "+
		"Non-trivial: the handler failed. Distinct by canonical case encoding."+
		" Poison topic spellings are generated (surrounding white space, case, non-ASCII) and used verbatim; the warm-up message may have failed with a failing poison publish.")
	lib.Extra("assumptions", []string{
		"in the Router part the settlement of the consumed message is sampled inside the poison Publish and after quiescence (20 s liveness bound)",
		"what happens to outputs returned together with a poisoned error is not part of the property",
	})
	lib.Main(m)
}

var sentinel = stderrors.New("sentinel failure")

type errSpec struct {
	Kind int    // 0 none(success), 1 std plain, 2 pkg errors.New, 3 errors.Wrap(sentinel), 4 %w sentinel, 5 multierror(sentinel, other), 6 empty text, 7 plain sentinel
	Text string // for kinds 1,2
}

func (e errSpec) build() error {
	switch e.Kind {
	case 1:
		return stderrors.New(e.Text)
	case 2:
		return errors.New(e.Text)
	case 3:
		return errors.Wrap(sentinel, "wrap: "+e.Text)
	case 4:
		return fmt.Errorf("wrap: %s: %w", e.Text, sentinel)
	case 5:
		return multierror.Append(sentinel, stderrors.New(e.Text))
	case 6:
		return stderrors.New("")
	case 7:
		return sentinel
	case 8:
		// a failure that wraps context.Canceled (e.g. a cancelled downstream call) is an ordinary handler error
		return fmt.Errorf("downstream: %s: %w", e.Text, context.Canceled)
	}
	return nil
}

type filterSpec struct {
	Kind int // 0 PoisonQueue (no filter), 1 always, 2 never, 3 errors.Is sentinel, 4 identity with returned error, 5 identity of pkg-errors Cause with sentinel, 6 text contains "wrap:", 7 text == ""
}

var filterNames = []string{"PoisonQueue", "always", "never", "errors.Is(sentinel)", "err==returned", "Cause(err)==sentinel", "text contains wrap:", "text empty", "stateful: accepts its first consultation only", "stateful: rejects its first consultation only"}

// scriptedFilter is a filter with state (budgets, samplers, circuit-breaker-like filters are such): its verdict depends on
// how often it was consulted. It logs every verdict it gave.
type scriptedFilter struct {
	mu       sync.Mutex
	first    bool
	verdicts []bool
}

func (f *scriptedFilter) fn(error) bool {
	f.mu.Lock()
	defer f.mu.Unlock()
	v := f.first
	if len(f.verdicts) > 0 {
		v = !f.first
	}
	f.verdicts = append(f.verdicts, v)
	return v
}

// poisonedBy is the model's verdict. For a pure filter it is filter(e). A stateful filter is judged by the verdicts it
// actually gave: if they agree, that is the verdict; if the middleware consulted it more than once and the answers
// differ, either verdict is acceptable but the outcome must be one of the two legal ones in full, so the side the
// observed number of poison publishes points to is checked.
func poisonedBy(c caseT, sf *scriptedFilter, e error, publishes int) bool {
	if e == nil {
		return false
	}
	if sf == nil {
		return c.Filter.fn(e)(e)
	}
	sf.mu.Lock()
	defer sf.mu.Unlock()
	if len(sf.verdicts) == 0 {
		return publishes > 0 // never asked: then nothing may have been published (checked by the caller's not-poisoned branch)
	}
	all := true
	for _, v := range sf.verdicts {
		if v != sf.verdicts[0] {
			all = false
		}
	}
	if all {
		return sf.verdicts[0]
	}
	lib.Count("stateful-filter-consulted-more-than-once-with-different-answers", 1)
	return publishes > 0
}

func (f filterSpec) fn(returned error) func(error) bool {
	switch f.Kind {
	case 0, 1:
		return func(error) bool { return true }
	case 2:
		return func(error) bool { return false }
	case 3:
		return func(e error) bool { return stderrors.Is(e, sentinel) }
	case 4:
		return func(e error) bool { return e == returned }
	case 5:
		return func(e error) bool { return errors.Cause(e) == sentinel }
	case 6:
		return func(e error) bool { return strings.Contains(e.Error(), "wrap:") }
	default:
		return func(e error) bool { return e.Error() == "" }
	}
}

type caseT struct {
	Msg      lib.Snap
	Err      errSpec
	Outputs  int
	Filter   filterSpec
	PubFails bool
	Topic    string // the poison topic, as configured: any non-empty string, used verbatim
}

func genCase(t *rapid.T) caseT {
	c := caseT{Msg: lib.GenSnap().Draw(t, "msg")}
	// pre-existing poison keys
	for _, k := range []string{middleware.ReasonForPoisonedKey, middleware.PoisonedTopicKey, middleware.PoisonedHandlerKey, middleware.PoisonedSubscriberKey} {
		if rapid.IntRange(0, 3).Draw(t, "preexisting:"+k) == 0 {
			c.Msg.Meta[k] = rapid.SampledFrom([]string{"old-value", "", "other-handler"}).Draw(t, "old")
		}
	}
	c.Err.Kind = rapid.SampledFrom([]int{0, 0, 1, 2, 3, 4, 5, 6, 7, 8}).Draw(t, "errKind")
	c.Err.Text = rapid.SampledFrom([]string{"boom", "wrap: inner", "", "sentinel failure", "é\n"}).Draw(t, "errText")
	c.Outputs = rapid.IntRange(0, 2).Draw(t, "outputs")
	c.Filter.Kind = rapid.IntRange(0, 9).Draw(t, "filter")
	c.PubFails = rapid.IntRange(0, 2).Draw(t, "poisonPublishFails") == 0
	c.Topic = rapid.SampledFrom([]string{"poison", "poison", "poison ", "\tdead letters", " poison.v2\n", "Poison", "poison/é"}).Draw(t, "poisonTopic")
	return c
}

func (c caseT) canon() string {
	return fmt.Sprintf("%s|%d|%q|%d|%d|%v|%q", c.Msg.Canon(), c.Err.Kind, c.Err.Text, c.Outputs, c.Filter.Kind, c.PubFails, c.Topic)
}

var errPoisonPub = stderrors.New("poison publisher down")

func newMW(t *rapid.T, c caseT, pub message.Publisher, returned error) (message.HandlerMiddleware, *scriptedFilter) {
	var mw message.HandlerMiddleware
	var err error
	var sf *scriptedFilter
	if c.Filter.Kind == 0 {
		mw, err = middleware.PoisonQueue(pub, c.Topic)
	} else if c.Filter.Kind >= 8 {
		sf = &scriptedFilter{first: c.Filter.Kind == 8}
		mw, err = middleware.PoisonQueueWithFilter(pub, c.Topic, sf.fn)
	} else {
		mw, err = middleware.PoisonQueueWithFilter(pub, c.Topic, c.Filter.fn(returned))
	}
	if err != nil {
		t.Fatalf("constructor failed: %v", err)
	}
	return mw, sf
}

// checkPoisonPublish verifies the content of the poison message.
func checkPoisonPublish(t *rapid.T, c caseT, pc *lib.PubCall, eText string, topic, handler, subscriber string) {
	if pc.Topic != c.Topic {
		t.Fatalf("violation: poison message published on %q, the configured poison topic is %q", pc.Topic, c.Topic)
	}
	if len(pc.Snaps) != 1 {
		t.Fatalf("violation: poison Publish carried %d messages, want 1", len(pc.Snaps))
	}
	got := pc.Snaps[0]
	want := lib.Snap{UUID: c.Msg.UUID, Payload: c.Msg.Payload, Meta: map[string]string{}}
	for k, v := range c.Msg.Meta {
		want.Meta[k] = v
	}
	want.Meta[middleware.ReasonForPoisonedKey] = eText
	want.Meta[middleware.PoisonedTopicKey] = topic
	want.Meta[middleware.PoisonedHandlerKey] = handler
	want.Meta[middleware.PoisonedSubscriberKey] = subscriber
	if got.UUID != want.UUID || string(got.Payload) != string(want.Payload) {
		t.Fatalf("violation: poison message lost UUID/payload: got %+v want %+v", got, want)
	}
	poisonKeys := map[string]bool{middleware.ReasonForPoisonedKey: true, middleware.PoisonedTopicKey: true, middleware.PoisonedHandlerKey: true, middleware.PoisonedSubscriberKey: true}
	for k, v := range want.Meta {
		gv, ok := got.Meta[k]
		// a poison key whose value is empty may be absent (Metadata.Get reads both as ""); it must never keep an old value
		if gv != v || (!ok && !(poisonKeys[k] && v == "")) {
			t.Fatalf("violation: poison message metadata[%q]=%q (present=%v), want %q\n got  %+v\n want %+v", k, gv, ok, v, got.Meta, want.Meta)
		}
	}
	for k := range got.Meta {
		if _, ok := want.Meta[k]; !ok {
			t.Fatalf("violation: poison message has unexpected metadata key %q: got %+v want %+v", k, got.Meta, want.Meta)
		}
	}
}

func TestPoisonStandAlone(t *testing.T) {
	rapid.Check(t, func(t *rapid.T) {
		c := genCase(t)
		e := c.Err.build()
		eText := ""
		if e != nil {
			eText = e.Error() // captured now: a multierror value is extended in place when the poison publish fails
		}
		pub := lib.NewScriptPub("")
		warmingUp, warmFails := false, false
		pub.OnPublish = func(*lib.PubCall) error {
			if (c.PubFails && !warmingUp) || (warmingUp && warmFails) {
				return errPoisonPub
			}
			return nil
		}
		mw, sf := newMW(t, c, pub, e)
		// the middleware value has a past: an earlier message with the SAME UUID (redelivery of a changed message, a
		// producer that re-uses ids) was handled by it before, failing into the poison queue or succeeding
		warm := 0
		if c.Filter.Kind < 8 {
			warm = rapid.SampledFrom([]int{0, 0, 1, 1, 2, 3, 3}).Draw(t, "earlierMessageWithSameUUID")
		}
		// (3 = the earlier message failed AND its poison publish failed: the publisher was down a moment ago - every message
		// is judged by what the publisher says for it, not by what it said for another one)
		warmFails = warm == 3
		if warm > 0 {
			warmingUp = true
			wm := c.Msg.Msg()
			wm.Payload = append([]byte("earlier:"), wm.Payload...)
			var werr error
			if warm == 1 || warm == 3 {
				werr = stderrors.New("earlier failure")
			}
			mw(func(*message.Message) ([]*message.Message, error) { return nil, werr })(wm)
			warmingUp = false
		}
		before := len(pub.Calls())
		var outs []*message.Message
		for i := 0; i < c.Outputs; i++ {
			outs = append(outs, message.NewMessage(fmt.Sprint("o", i), nil))
		}
		calls := 0
		msg := c.Msg.Msg()
		if rapid.IntRange(0, 3).Draw(t, "messageContextAlreadyEnded") == 0 {
			cctx, ccancel := context.WithCancel(context.Background())
			ccancel()
			msg.SetContext(cctx)
		}
		gotOuts, gotErr := mw(func(m *message.Message) ([]*message.Message, error) {
			calls++
			if m != msg {
				t.Fatalf("violation: handler received a different message object")
			}
			return outs, e
		})(msg)
		if calls != 1 {
			t.Fatalf("violation: handler called %d times", calls)
		}
		pcs := pub.Calls()[before:]
		poisoned := poisonedBy(c, sf, e, len(pcs))
		switch {
		case !poisoned:
			if len(pcs) != 0 {
				t.Fatalf("violation: %d poison publishes although the handler %s (filter %s)", len(pcs), map[bool]string{true: "succeeded", false: "failed with a filtered-out error"}[e == nil], filterNames[c.Filter.Kind])
			}
			if gotErr != e {
				t.Fatalf("violation: error changed from %v to %v although nothing was poisoned", e, gotErr)
			}
			if !sameMsgs(gotOuts, outs) {
				t.Fatalf("violation: outputs changed although nothing was poisoned")
			}
			if !lib.SnapOf(msg).Equal(c.Msg) {
				t.Fatalf("violation: message modified although nothing was poisoned: %+v -> %+v", c.Msg, lib.SnapOf(msg))
			}
		case !c.PubFails:
			if len(pcs) != 1 {
				t.Fatalf("violation: %d poison publishes for a poisoned message, want exactly 1 (error %q, filter %s)", len(pcs), e, filterNames[c.Filter.Kind])
			}
			checkPoisonPublish(t, c, pcs[0], eText, "", "", "")
			if gotErr != nil {
				t.Fatalf("violation: poison publish succeeded but error %v is still returned", gotErr)
			}
		default:
			if len(pcs) != 1 {
				t.Fatalf("violation: %d poison publish attempts, want exactly 1", len(pcs))
			}
			if gotErr == nil {
				t.Fatalf("violation: poison publish failed but the middleware reported success (message would be acked and lost)")
			}
			if !strings.Contains(gotErr.Error(), strings.TrimSpace(strings.TrimPrefix(eText, "2 errors occurred:"))) && !strings.Contains(gotErr.Error(), eText) {
				t.Fatalf("violation: returned error %q no longer contains the handler's error %q", gotErr, eText)
			}
		}
		lib.Case(fmt.Sprintf("sa|%s|warm=%d", c.canon(), warm), e != nil, "standalone", fmt.Sprintf("poisoned=%v", poisoned), fmt.Sprintf("earlier-message-with-same-uuid=%d", warm))
		if e != nil {
			lib.Sample(map[string]any{"test": "PoisonStandAlone", "msg": c.Msg, "error": e.Error(), "filter": filterNames[c.Filter.Kind], "publish_fails": c.PubFails, "poisoned": poisoned})
		}
	})
}

func sameMsgs(a, b []*message.Message) bool {
	if len(a) != len(b) {
		return false
	}
	for i := range a {
		if a[i] != b[i] {
			return false
		}
	}
	return true
}

func TestPoisonInRouter(t *testing.T) {
	rapid.Check(t, func(t *rapid.T) {
		c := genCase(t)
		c.Outputs = 0
		e := c.Err.build()
		eText := ""
		if e != nil {
			eText = e.Error()
		}
		hname := rapid.SampledFrom([]string{"h", "", "poisoned-handler"}).Draw(t, "handlerName")
		topic := rapid.SampledFrom([]string{"in", "", "t/1", "poison"}).Draw(t, "subscribeTopic")
		sub := lib.NewScriptSub(rapid.SampledFrom([]string{"", "my-sub"}).Draw(t, "subName"))
		pub := lib.NewScriptPub("")
		var d *lib.Delivery
		type obs struct{ a, n bool }
		var inside []obs
		pub.OnPublish = func(*lib.PubCall) error {
			a, n := lib.Settled(d.Msg)
			inside = append(inside, obs{a, n})
			if c.PubFails {
				return errPoisonPub
			}
			return nil
		}
		router, err := message.NewRouter(message.RouterConfig{CloseTimeout: 5 * time.Second}, watermill.NopLogger{})
		if err != nil {
			t.Fatalf("NewRouter: %v", err)
		}
		pmw, sf := newMW(t, c, pub, e)
		router.AddMiddleware(pmw)
		calls := 0
		router.AddNoPublisherHandler(hname, topic, sub, func(m *message.Message) error {
			calls++
			return e
		})
		// the router-level poison queue serves every handler of the router: another handler (other name, topic, subscriber)
		// may have poisoned a message through the same middleware value before
		otherSub := lib.NewScriptSub("other-subscriber")
		router.AddNoPublisherHandler(hname+"-other", "other-topic", otherSub, func(m *message.Message) error {
			return stderrors.New("the other handler fails")
		})
		go router.Run(context.Background())
		select {
		case <-router.Running():
		case <-time.After(lib.Live):
			t.Fatalf("harness: router did not start")
		}
		before := 0
		if c.Filter.Kind < 8 && rapid.Bool().Draw(t, "otherHandlerPoisonedAMessageBefore") {
			wasFailing := c.PubFails
			c.PubFails = false
			wm := message.NewMessage("other-message", []byte("x"))
			d = &lib.Delivery{Msg: wm}
			wd, ok := otherSub.Subs()[0].Emit(wm, "w", 0, lib.Live)
			if !ok {
				t.Fatalf("harness: router did not take the other handler's message")
			}
			wd.Wait(2 * lib.Live)
			c.PubFails = wasFailing
			before = len(pub.Calls())
			inside = nil
		}
		msg := c.Msg.Msg()
		if rapid.IntRange(0, 3).Draw(t, "messageContextAlreadyEnded") == 0 {
			// a message whose context is over by the time its handler fails is a failed message like any other
			cctx, ccancel := context.WithCancel(context.Background())
			ccancel()
			msg.SetContext(cctx)
		}
		if rapid.Bool().Draw(t, "contextFromSameNamedHandlerElsewhere") {
			// the message arrives with the context of a handler of the same name in another router
			// (a relay that keeps the context): the poison metadata must still name THIS handler's topic and subscriber
			msg.SetContext(donorContext(hname))
		}
		d = &lib.Delivery{Msg: msg}
		var ok bool
		d, ok = sub.Subs()[0].Emit(msg, "m", 0, lib.Live)
		if !ok {
			t.Fatalf("harness: router did not take the message")
		}
		acked, settled := d.Wait(2 * lib.Live)
		if !settled {
			t.Fatalf("violation: message never settled")
		}
		done := make(chan struct{})
		go func() { router.Close(); close(done) }()
		select {
		case <-done:
		case <-time.After(lib.Live):
			lib.Count("router_close_slow", 1)
		}
		pcs := pub.Calls()[before:]
		poisoned := poisonedBy(c, sf, e, len(pcs))
		wantAck := e == nil || (poisoned && !c.PubFails)
		if acked != wantAck {
			t.Fatalf("violation: message acked=%v, model says %v (error %v, filter %s, poison publish fails=%v)", acked, wantAck, e, filterNames[c.Filter.Kind], c.PubFails)
		}
		if calls != 1 {
			t.Fatalf("violation: handler called %d times", calls)
		}
		if poisoned {
			if len(pcs) != 1 {
				t.Fatalf("violation: %d poison publishes, want exactly 1", len(pcs))
			}
			if inside[0].a || inside[0].n {
				t.Fatalf("violation: message already settled (acked=%v nacked=%v) while being published to the poison topic", inside[0].a, inside[0].n)
			}
			checkPoisonPublish(t, c, pcs[0], eText, topic, hname, sub.String())
		} else if len(pcs) != 0 {
			t.Fatalf("violation: %d poison publishes although nothing should be poisoned", len(pcs))
		}
		lib.Case("rt|"+c.canon()+"|"+hname+"|"+topic, e != nil, "in-router", fmt.Sprintf("poisoned=%v", poisoned))
		if e != nil {
			lib.Sample(map[string]any{"test": "PoisonInRouter", "handler": hname, "topic": topic, "error": e.Error(), "filter": filterNames[c.Filter.Kind], "publish_fails": c.PubFails, "acked": acked})
		}
	})
}

var donorMu sync.Mutex
var donors = map[string]context.Context{}

// donorContext returns the context a message has inside a handler called name of another router
// (subscribe topic "donor-topic", subscriber "donor-subscriber").
func donorContext(name string) context.Context {
	donorMu.Lock()
	defer donorMu.Unlock()
	if ctx, ok := donors[name]; ok {
		return ctx
	}
	router, _ := message.NewRouter(message.RouterConfig{CloseTimeout: time.Second}, watermill.NopLogger{})
	sub := lib.NewScriptSub("donor-subscriber")
	got := make(chan context.Context, 1)
	router.AddNoPublisherHandler(name, "donor-topic", sub, func(m *message.Message) error {
		got <- m.Context()
		return nil
	})
	go router.Run(context.Background())
	<-router.Running()
	sub.Subs()[0].Emit(message.NewMessage("donor", nil), "", 0, lib.Live)
	ctx := <-got
	go router.Close()
	// detach from the donor router's cancellation, keep the values
	donors[name] = context.WithoutCancel(ctx)
	return donors[name]
}
