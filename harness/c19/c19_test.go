// C19 — Simple middlewares change only what they document and only during the call.
package c19

import (
	"context"
	stderrors "errors"
	"fmt"
	"strings"
	"testing"
	"time"

	"github.com/ThreeDotsLabs/watermill/components/delay"
	"github.com/ThreeDotsLabs/watermill/message"
	"github.com/ThreeDotsLabs/watermill/message/router/middleware"
	"github.com/ThreeDotsLabs/watermill/verifharness/lib"
	"github.com/pkg/errors"
	"github.com/sony/gobreaker"
	"pgregory.net/rapid"
)

func TestMain(m *testing.M) {
	lib.Extra("rule", "rapid-generated chains of up to 3 of {Timeout, CorrelationID, Recoverer, IgnoreErrors, InstantAck, Throttle(high rate), DelayOnError(real Multiplier), closed CircuitBreaker} optionally with Retry(zero intervals) at any position, "+
		"run on a scripted handler (per call: 0..2 outputs with/without correlation id; nil / listed / unlisted / pkg-errors-wrapped listed error; panic with string/error/struct/nil) and a generated message "+
		"(correlation id, pre-existing deadline, pre-existing delay metadata). Oracle = differential against a chain of obviously-correct reference middlewares on the same script. "+
		"Separate sequence tests: DelayOnError over k consecutive failures, Throttle start times (incl. messages with a done context). "+
		"Non-trivial: the chain has >=2 elements or the handler does not plainly succeed. Distinct by canonical case encoding."+
		" Handler errors include application error types with Cause() only (listed and unlisted cause); 1 of 6 messages arrives with an ended context.")
	lib.Extra("assumptions", []string{
		"Timeout durations are minutes to hours so that no deadline expires during a case; the message context is live unless stated",
		"%w-wrapped errors under IgnoreErrors are not demanded (it documents errors.Cause); log output and stack text are not compared",
		"Throttle: the j-th handler start is not earlier than ticker creation + j*period (each start consumes a distinct tick; ticks are never early)",
	})
	lib.Main(m)
}

// ---------- scripted handler ----------

var listedErr = stderrors.New("listed failure")
var unlistedErr = stderrors.New("unlisted failure")

type panicStruct struct{ A int }

// causerErr implements the causer interface pkg/errors documents for errors.Cause, and nothing else.
type causerErr struct{ cause error }

func (c causerErr) Error() string { return "application error caused by: " + c.cause.Error() }
func (c causerErr) Cause() error  { return c.cause }

type replCtxKey struct{}

type callSpec struct {
	Outs  []int // per output: 0 no correlation id, 1 has its own correlation id
	Err   int   // 0 nil, 1 listed, 2 unlisted, 3 errors.Wrap(listed), 4 fmt %w (not generated: not demanded, IgnoreErrors documents errors.Cause), 5-7 errors.Wrap/WithMessage/WithStack(unlisted)
	Panic int   // 0 none, 1 string, 2 error, 3 struct, 4 nil
	// SetCorr: the handler assigns the incoming message its correlation id during the call, if it has none yet
	// (SetCorrelationID is documented for "when the message enters the system"): outputs lacking one get THAT id
	SetCorr bool
	// ReplCtx: the handler replaces the message context with one derived from it (adds a value): whatever a middleware
	// installed for the call is gone after the call all the same
	ReplCtx bool
	// Outlast: the handler works until the deadline it sees has passed (only deadlines within 100 ms count) and then returns its result
	Outlast bool
}

type callObs struct {
	ackedAtEntry bool
	hasDeadline  bool
	deadline     time.Time
	entry        time.Time
	outs         []*message.Message
	err          error
}

type script struct {
	specs []callSpec
	obs   []*callObs
}

func (s *script) handler(msg *message.Message) ([]*message.Message, error) {
	i := len(s.obs)
	sp := s.specs[len(s.specs)-1]
	if i < len(s.specs) {
		sp = s.specs[i]
	}
	o := &callObs{entry: time.Now()}
	o.ackedAtEntry, _ = lib.Settled(msg)
	o.deadline, o.hasDeadline = msg.Context().Deadline()
	s.obs = append(s.obs, o)
	if sp.SetCorr {
		middleware.SetCorrelationID(fmt.Sprintf("assigned-in-call-%d", i), msg)
	}
	if sp.Outlast {
		if dl, ok := msg.Context().Deadline(); ok && time.Until(dl) < 100*time.Millisecond {
			<-msg.Context().Done()
		}
	}
	if sp.ReplCtx {
		msg.SetContext(context.WithValue(msg.Context(), replCtxKey{}, i))
	}
	for k, kind := range sp.Outs {
		m := message.NewMessage(fmt.Sprintf("c%d-o%d", i, k), []byte("x"))
		if kind == 1 {
			m.Metadata.Set(middleware.CorrelationIDMetadataKey, fmt.Sprintf("own-%d-%d", i, k))
		}
		o.outs = append(o.outs, m)
	}
	switch sp.Panic {
	case 1:
		panic(fmt.Sprintf("panic-string-%d", i))
	case 2:
		panic(stderrors.New("panic-error"))
	case 3:
		panic(panicStruct{A: 7})
	case 4:
		panic(nil)
	}
	switch sp.Err {
	case 1:
		o.err = listedErr
	case 2:
		o.err = unlistedErr
	case 3:
		o.err = errors.Wrap(listedErr, "wrapped")
	case 4:
		o.err = fmt.Errorf("w-wrapped: %w", unlistedErr)
	case 5: // pkg/errors wrappers around an error that is NOT listed: must come back as they are
		o.err = errors.Wrap(unlistedErr, "wrapped")
	case 6:
		o.err = errors.WithMessage(unlistedErr, "with message")
	case 7:
		o.err = errors.WithStack(unlistedErr)
	case 8: // an error type of the application's own that names its cause the pkg/errors way (Cause() only): the cause is listed
		o.err = causerErr{listedErr}
	case 9:
		o.err = causerErr{unlistedErr}
	}
	return o.outs, o.err
}

// ---------- chain elements ----------

type elem struct {
	Kind    string
	D       time.Duration // timeout
	Retries int
	Initial time.Duration
	Max     time.Duration
	Mult    float64
}

func (e elem) String() string {
	switch e.Kind {
	case "timeout":
		return fmt.Sprintf("Timeout(%v)", e.D)
	case "retry":
		return fmt.Sprintf("Retry(%d)", e.Retries)
	case "delay":
		return fmt.Sprintf("DelayOnError(%v,x%v,max %v)", e.Initial, e.Mult, e.Max)
	}
	return e.Kind
}

func real(e elem) message.HandlerMiddleware {
	switch e.Kind {
	case "timeout":
		return middleware.Timeout(e.D)
	case "corr":
		return middleware.CorrelationID
	case "recov":
		return middleware.Recoverer
	case "ignore":
		return middleware.NewIgnoreErrors([]error{listedErr}).Middleware
	case "iack":
		return middleware.InstantAck
	case "throttle":
		return middleware.NewThrottle(100000, time.Second).Middleware
	case "delay":
		d := &middleware.DelayOnError{InitialInterval: e.Initial, MaxInterval: e.Max, Multiplier: e.Mult}
		return d.Middleware
	case "circuit":
		return middleware.NewCircuitBreaker(gobreaker.Settings{ReadyToTrip: func(gobreaker.Counts) bool { return false }}).Middleware
	case "retry":
		return middleware.Retry{MaxRetries: e.Retries, Multiplier: 1}.Middleware
	}
	panic("unknown " + e.Kind)
}

type refRecovered struct{ V any }

func (r refRecovered) Error() string { return fmt.Sprintf("recovered: %v", r.V) }

// ref returns the obviously-correct reference of each middleware.
func ref(e elem) message.HandlerMiddleware {
	return func(h message.HandlerFunc) message.HandlerFunc {
		return func(msg *message.Message) (outs []*message.Message, err error) {
			switch e.Kind {
			case "timeout":
				orig := msg.Context()
				ctx, cancel := context.WithTimeout(orig, e.D)
				msg.SetContext(ctx)
				defer func() { cancel(); msg.SetContext(orig) }()
				return h(msg)
			case "corr":
				outs, err = h(msg)
				id := msg.Metadata.Get(middleware.CorrelationIDMetadataKey)
				for _, o := range outs {
					if o.Metadata.Get(middleware.CorrelationIDMetadataKey) == "" {
						o.Metadata.Set(middleware.CorrelationIDMetadataKey, id)
					}
				}
				return outs, err
			case "recov":
				panicked := true
				defer func() {
					if r := recover(); r != nil || panicked {
						outs, err = nil, refRecovered{V: r}
					}
				}()
				outs, err = h(msg)
				panicked = false
				return outs, err
			case "ignore":
				outs, err = h(msg)
				if err != nil && errors.Cause(err).Error() == listedErr.Error() {
					return outs, nil
				}
				return outs, err
			case "iack":
				msg.Ack()
				return h(msg)
			case "delay":
				outs, err = h(msg)
				if err != nil {
					cur := msg.Metadata.Get(delay.DelayedForKey)
					next := e.Initial
					if d, perr := time.ParseDuration(cur); cur != "" && perr == nil {
						next = time.Duration(float64(d) * e.Mult)
						if next > e.Max {
							next = e.Max
						}
					}
					msg.Metadata.Set(delay.DelayedForKey, next.String())
				}
				return outs, err
			case "retry":
				outs, err = h(msg)
				for i := 0; err != nil && i < e.Retries; i++ {
					if msg.Context().Err() != nil {
						return outs, err
					}
					outs, err = h(msg)
				}
				if err != nil {
					return nil, err
				}
				return outs, nil
			default: // throttle (rate checked separately), closed circuit breaker
				return h(msg)
			}
		}
	}
}

// ---------- case ----------

type caseT struct {
	Chain       []elem // outermost first
	Specs       []callSpec
	CorrID      string
	HasDeadline bool
	DelayMeta   string // pre-existing delayed_for metadata ("" = none)
	CtxEnded    bool   // the message arrives with a context that has ended already (its subscription was cancelled meanwhile)
}

func genElem(t *rapid.T, allowRetry bool) elem {
	kinds := []string{"timeout", "corr", "recov", "ignore", "iack", "throttle", "delay", "circuit"}
	if allowRetry {
		kinds = append(kinds, "retry", "retry")
	}
	e := elem{Kind: rapid.SampledFrom(kinds).Draw(t, "middleware")}
	switch e.Kind {
	case "timeout":
		e.D = rapid.SampledFrom([]time.Duration{time.Minute, 10 * time.Minute, 2 * time.Hour, 2 * time.Millisecond}).Draw(t, "timeout")
	case "retry":
		e.Retries = rapid.IntRange(1, 3).Draw(t, "maxRetries")
	case "delay":
		e.Initial = time.Duration(rapid.Int64Range(int64(time.Millisecond), int64(10*time.Second)).Draw(t, "initial"))
		e.Mult = rapid.Float64Range(1, 4).Draw(t, "multiplier")
		e.Max = e.Initial + time.Duration(rapid.Int64Range(0, int64(60*time.Second)).Draw(t, "maxExtra"))
	}
	return e
}

func genCase(t *rapid.T) caseT {
	c := caseT{}
	n := rapid.IntRange(1, 3).Draw(t, "chainLength")
	retryAt := -1
	if rapid.Bool().Draw(t, "withRetry") {
		retryAt = rapid.IntRange(0, n).Draw(t, "retryPosition")
	}
	for i := 0; i <= n; i++ {
		if i == retryAt {
			c.Chain = append(c.Chain, elem{Kind: "retry", Retries: rapid.IntRange(1, 3).Draw(t, "maxRetries")})
		}
		if i < n {
			c.Chain = append(c.Chain, genElem(t, false))
		}
	}
	ns := rapid.IntRange(1, 4).Draw(t, "scriptLength")
	for i := 0; i < ns; i++ {
		sp := callSpec{}
		no := rapid.IntRange(0, 2).Draw(t, "outputs")
		for k := 0; k < no; k++ {
			sp.Outs = append(sp.Outs, rapid.IntRange(0, 1).Draw(t, "outHasCorrelationID"))
		}
		sp.SetCorr = rapid.IntRange(0, 3).Draw(t, "handlerAssignsCorrelationID") == 0
		sp.ReplCtx = rapid.IntRange(0, 3).Draw(t, "handlerReplacesTheMessageContext") == 0
		switch rapid.IntRange(0, 5).Draw(t, "outcome") {
		case 0, 1:
		case 2, 3:
			sp.Err = rapid.SampledFrom([]int{1, 2, 3, 5, 6, 7, 8, 8, 9}).Draw(t, "errKind")
		case 4:
			sp.Panic = rapid.IntRange(1, 4).Draw(t, "panicKind")
		case 5:
			sp.Err = 2
		}
		c.Specs = append(c.Specs, sp)
	}
	for _, e := range c.Chain {
		if e.Kind == "timeout" && e.D < time.Second {
			// a timeout that really passes: every call outlasts it, so that nothing depends on how fast the machine is
			for i := range c.Specs {
				c.Specs[i].Outlast = true
			}
		}
	}
	c.CorrID = rapid.SampledFrom([]string{"", "corr-1", "é"}).Draw(t, "correlationID")
	c.HasDeadline = rapid.IntRange(0, 2).Draw(t, "existingDeadline") == 0
	c.DelayMeta = rapid.SampledFrom([]string{"", "", "1s", "1.5s", "garbage", "250ms"}).Draw(t, "existingDelayMeta")
	c.CtxEnded = rapid.IntRange(0, 5).Draw(t, "messageContextAlreadyEnded") == 0
	return c
}

func (c caseT) canon() string {
	var b strings.Builder
	for _, e := range c.Chain {
		b.WriteString(e.String() + ">")
	}
	fmt.Fprintf(&b, "|%v|%q|%v|%q|%v", c.Specs, c.CorrID, c.HasDeadline, c.DelayMeta, c.CtxEnded)
	return b.String()
}

type summary struct {
	Calls        int
	Panicked     bool
	PanicValue   string
	ErrKind      string
	Outs         []string // per output: "callK#idx corr=..." or "foreign"
	AckedAtEntry []bool
	AckedAfter   bool
	CtxErrAfter  string
	DelayFor     string
	RetryFailed  bool
}

type runResult struct {
	sum      summary
	obs      []*callObs
	start    time.Time
	existing time.Time
}

func describeErr(err error, sc *script) string {
	if err == nil {
		return "nil"
	}
	for i, o := range sc.obs {
		if o.err != nil && err == o.err {
			return fmt.Sprintf("identical to the error of call %d", i)
		}
	}
	var rp middleware.RecoveredPanicError
	if errors.As(err, &rp) {
		return fmt.Sprintf("recovered panic carrying %s", panicStr(rp.V))
	}
	var rr refRecovered
	if errors.As(err, &rr) {
		return fmt.Sprintf("recovered panic carrying %s", panicStr(rr.V))
	}
	return "other: " + err.Error()
}

func panicStr(v any) string {
	if v == nil {
		return "<nil panic>"
	}
	if _, ok := v.(interface{ RuntimeError() }); ok {
		return "<nil panic>" // *runtime.PanicNilError
	}
	if e, ok := v.(error); ok {
		if strings.Contains(e.Error(), "panic called with nil argument") {
			return "<nil panic>"
		}
		return "error:" + e.Error()
	}
	return fmt.Sprintf("%T:%v", v, v)
}

func runChain(c caseT, build func(elem) message.HandlerMiddleware) runResult {
	sc := &script{specs: c.Specs}
	h := message.HandlerFunc(sc.handler)
	hasRetry := false
	for i := len(c.Chain) - 1; i >= 0; i-- {
		h = build(c.Chain[i])(h)
		if c.Chain[i].Kind == "retry" {
			hasRetry = true
		}
	}
	msg := message.NewMessage("in", []byte("payload"))
	if c.CorrID != "" {
		msg.Metadata.Set(middleware.CorrelationIDMetadataKey, c.CorrID)
	}
	if c.DelayMeta != "" {
		msg.Metadata.Set(delay.DelayedForKey, c.DelayMeta)
	}
	res := runResult{}
	ctx := context.Background()
	if c.HasDeadline {
		res.existing = time.Now().Add(time.Hour)
		var cancel context.CancelFunc
		ctx, cancel = context.WithDeadline(ctx, res.existing)
		defer cancel()
	}
	if c.CtxEnded {
		var cancelNow context.CancelFunc
		ctx, cancelNow = context.WithCancel(ctx)
		cancelNow()
	}
	msg.SetContext(ctx)
	res.start = time.Now()
	var outs []*message.Message
	var err error
	func() {
		defer func() {
			if r := recover(); r != nil {
				res.sum.Panicked = true
				res.sum.PanicValue = panicStr(r)
			}
		}()
		outs, err = h(msg)
	}()
	res.obs = sc.obs
	s := &res.sum
	s.Calls = len(sc.obs)
	if !s.Panicked {
		s.ErrKind = describeErr(err, sc)
		s.RetryFailed = hasRetry && err != nil
		if !s.RetryFailed {
			for _, o := range outs {
				d := "foreign object"
				for ci, ob := range sc.obs {
					for oi, oo := range ob.outs {
						if oo == o {
							d = fmt.Sprintf("call%d#%d", ci, oi)
						}
					}
				}
				s.Outs = append(s.Outs, fmt.Sprintf("%s corr=%q", d, o.Metadata.Get(middleware.CorrelationIDMetadataKey)))
			}
		}
	}
	for _, o := range sc.obs {
		s.AckedAtEntry = append(s.AckedAtEntry, o.ackedAtEntry)
	}
	s.AckedAfter, _ = lib.Settled(msg)
	if e := msg.Context().Err(); e != nil {
		s.CtxErrAfter = e.Error()
	}
	s.DelayFor = msg.Metadata.Get(delay.DelayedForKey)
	return res
}

func durClose(a, b string, calls int) bool {
	if a == b {
		return true
	}
	da, ea := time.ParseDuration(a)
	db, eb := time.ParseDuration(b)
	if ea != nil || eb != nil {
		return false
	}
	diff := da - db
	if diff < 0 {
		diff = -diff
	}
	return diff <= time.Duration(calls+1)*time.Microsecond
}

func TestChainAgainstReference(t *testing.T) {
	rapid.Check(t, func(t *rapid.T) {
		c := genCase(t)
		got := runChain(c, real)
		want := runChain(c, ref)
		g, w := got.sum, want.sum
		desc := fmt.Sprintf("chain (outermost first) %v, script %+v, corr=%q existingDeadline=%v delayMeta=%q messageContextAlreadyEnded=%v", c.Chain, c.Specs, c.CorrID, c.HasDeadline, c.DelayMeta, c.CtxEnded)
		if g.Calls != w.Calls {
			t.Fatalf("violation: handler called %d times, reference chain calls it %d times\n%s", g.Calls, w.Calls, desc)
		}
		if g.Panicked != w.Panicked || g.PanicValue != w.PanicValue {
			t.Fatalf("violation: panic escaped=%v (%s), reference: %v (%s)\n%s", g.Panicked, g.PanicValue, w.Panicked, w.PanicValue, desc)
		}
		if g.ErrKind != w.ErrKind {
			t.Fatalf("violation: returned error is [%s], reference returns [%s]\n%s", g.ErrKind, w.ErrKind, desc)
		}
		if fmt.Sprint(g.Outs) != fmt.Sprint(w.Outs) {
			t.Fatalf("violation: returned outputs %v, reference returns %v\n%s", g.Outs, w.Outs, desc)
		}
		if fmt.Sprint(g.AckedAtEntry) != fmt.Sprint(w.AckedAtEntry) || g.AckedAfter != w.AckedAfter {
			t.Fatalf("violation: ack state at handler entry %v / after %v, reference %v / %v\n%s", g.AckedAtEntry, g.AckedAfter, w.AckedAtEntry, w.AckedAfter, desc)
		}
		if g.CtxErrAfter != w.CtxErrAfter {
			t.Fatalf("violation: after the call the message context error is %q, reference %q (the effect must end with the call)\n%s", g.CtxErrAfter, w.CtxErrAfter, desc)
		}
		if !durClose(g.DelayFor, w.DelayFor, g.Calls) {
			t.Fatalf("violation: delay metadata after the call is %q, reference %q\n%s", g.DelayFor, w.DelayFor, desc)
		}
		// deadline visible during the call: computed from the case, not from the reference run
		for i, o := range got.obs {
			dmin := time.Duration(0)
			// only timeouts that enclose the handler in every call count (all of them do: the chain is linear)
			for _, e := range c.Chain {
				if e.Kind == "timeout" && (dmin == 0 || e.D < dmin) {
					dmin = e.D
				}
			}
			if dmin == 0 && !c.HasDeadline {
				if o.hasDeadline {
					t.Fatalf("violation: call %d sees a deadline although no Timeout is installed\n%s", i, desc)
				}
				continue
			}
			if !o.hasDeadline {
				t.Fatalf("violation: call %d sees no deadline inside the handler\n%s", i, desc)
			}
			upper, lower := got.existing, got.existing
			if dmin != 0 {
				u, l := o.entry.Add(dmin), got.start.Add(dmin)
				if upper.IsZero() || u.Before(upper) {
					upper = u
				}
				if lower.IsZero() || l.Before(lower) {
					lower = l
				}
			}
			if o.deadline.After(upper) || o.deadline.Before(lower) {
				t.Fatalf("violation: call %d sees deadline in %v, must lie in [%v, %v] from the call's start (tightest of Timeout %v and the pre-existing deadline)\n%s",
					i, o.deadline.Sub(o.entry), lower.Sub(o.entry), upper.Sub(o.entry), dmin, desc)
			}
		}
		plain := len(c.Specs) > 0 && c.Specs[0].Err == 0 && c.Specs[0].Panic == 0
		nontrivial := len(c.Chain) >= 2 || !plain
		cls := []string{fmt.Sprintf("chainlen=%d", len(c.Chain))}
		for _, e := range c.Chain {
			cls = append(cls, "has:"+e.Kind)
		}
		lib.Case(c.canon(), nontrivial, cls...)
		if nontrivial {
			lib.Sample(map[string]any{"test": "ChainAgainstReference", "chain": fmt.Sprint(c.Chain), "script": fmt.Sprintf("%+v", c.Specs), "summary": fmt.Sprintf("%+v", g)})
		}
	})
}

// ---------- DelayOnError sequences ----------

func TestDelayOnErrorSequence(t *testing.T) {
	rapid.Check(t, func(t *rapid.T) {
		initial := time.Duration(rapid.Int64Range(int64(time.Millisecond), int64(10*time.Second)).Draw(t, "initial"))
		mult := rapid.Float64Range(1, 4).Draw(t, "multiplier")
		if rapid.IntRange(0, 2).Draw(t, "niceMultiplier") == 0 {
			mult = rapid.SampledFrom([]float64{1, 1.5, 2, 2.5, 1.1, 3}).Draw(t, "mult")
		}
		max := initial + time.Duration(rapid.Int64Range(0, int64(5*time.Minute)).Draw(t, "maxExtra"))
		d := &middleware.DelayOnError{InitialInterval: initial, MaxInterval: max, Multiplier: mult}
		n := rapid.IntRange(1, 8).Draw(t, "failures")
		endWithSuccess := rapid.Bool().Draw(t, "endWithSuccess")
		fail := true
		h := d.Middleware(func(m *message.Message) ([]*message.Message, error) {
			if fail {
				return nil, unlistedErr
			}
			return nil, nil
		})
		msg := message.NewMessage("u", nil)
		expected := float64(initial)
		for k := 1; k <= n; k++ {
			// redelivery hands over a copy carrying the metadata
			msg = msg.Copy()
			if _, err := h(msg); err != unlistedErr {
				t.Fatalf("violation: error not passed through: %v", err)
			}
			want := time.Duration(expected)
			if want > max {
				want = max
			}
			got, perr := time.ParseDuration(msg.Metadata.Get(delay.DelayedForKey))
			if perr != nil {
				t.Fatalf("violation: after failure %d the delay metadata %q is not a duration", k, msg.Metadata.Get(delay.DelayedForKey))
			}
			diff := got - want
			if diff < 0 {
				diff = -diff
			}
			if diff > time.Duration(k)*time.Microsecond {
				t.Fatalf("violation: after the %d-th consecutive failure the delay is %v, want min(%v x %v^%d, %v) = %v", k, got, initial, mult, k-1, max, want)
			}
			until, uerr := time.Parse(time.RFC3339, msg.Metadata.Get(delay.DelayedUntilKey))
			if uerr != nil {
				t.Fatalf("violation: delayed-until metadata %q is not RFC3339", msg.Metadata.Get(delay.DelayedUntilKey))
			}
			_ = until
			expected = float64(want) * mult
		}
		if endWithSuccess {
			fail = false
			before := lib.SnapOf(msg)
			if _, err := h(msg); err != nil {
				t.Fatalf("violation: success turned into error %v", err)
			}
			if !lib.SnapOf(msg).Equal(before) {
				t.Fatalf("violation: a successful call changed the message: %+v -> %+v", before, lib.SnapOf(msg))
			}
		}
		frac := mult != float64(int64(mult))
		cls := []string{"delay-seq"}
		if frac {
			cls = append(cls, "fractional-multiplier")
		}
		lib.Case(fmt.Sprintf("delayseq|%v|%v|%v|%d|%v", initial, mult, max, n, endWithSuccess), n >= 2, cls...)
		lib.Sample(map[string]any{"test": "DelayOnErrorSequence", "initial": initial.String(), "multiplier": mult, "max": max.String(), "failures": n})
	})
}

// ---------- Throttle ----------

func TestThrottleRate(t *testing.T) {
	rapid.Check(t, func(t *rapid.T) {
		periodUs := rapid.IntRange(500, 3000).Draw(t, "periodUs")
		n := rapid.IntRange(3, 8).Draw(t, "calls")
		period := time.Duration(periodUs) * time.Microsecond
		count := int64(rapid.IntRange(1, 5).Draw(t, "count"))
		t0 := time.Now()
		th := middleware.NewThrottle(count, period*time.Duration(count))
		var starts []time.Time
		h := th.Middleware(func(m *message.Message) ([]*message.Message, error) {
			starts = append(starts, time.Now())
			return []*message.Message{m}, unlistedErr
		})
		doneCtx, cancel := context.WithCancel(context.Background())
		cancel()
		kinds := ""
		for i := 0; i < n; i++ {
			m := message.NewMessage(fmt.Sprint(i), nil)
			k := rapid.IntRange(0, 2).Draw(t, "msgCtx")
			kinds += fmt.Sprint(k)
			if k == 1 {
				m.SetContext(doneCtx)
			}
			outs, err := h(m)
			if err != unlistedErr || len(outs) != 1 || outs[0] != m {
				t.Fatalf("violation: Throttle changed the handler's result")
			}
		}
		for j, s := range starts {
			earliest := t0.Add(time.Duration(j+1) * period)
			if s.Before(earliest) {
				t.Fatalf("violation: handler start %d happened %v after the throttle was created; at 1 per %v it cannot start before %v (message contexts: %s, 1 = already done)",
					j+1, s.Sub(t0), period, earliest.Sub(t0), kinds)
			}
		}
		lib.Case(fmt.Sprintf("throttle|%d|%d|%d|%s", periodUs, n, count, kinds), strings.Contains(kinds, "1"), "throttle")
		lib.Sample(map[string]any{"test": "ThrottleRate", "period": period.String(), "calls": n, "msg_ctx_kinds": kinds})
	})
}

// ---------- Throttle after an idle period ----------

// "handler starts no faster than the configured rate": a throttle that had nothing to do for a while does not owe anybody
// the starts it did not hand out. With a ticker at most one tick waits while nobody asks; so of four consecutive starts the
// last is at least two periods after the tick the first one used. The check demands one period between the first and the
// fourth start (the slack absorbs ticks that fire late on a loaded machine) and confirms a miss with a second run.
func throttleBurstAfterIdle(period time.Duration, idlePeriods, burst int) (span time.Duration, ok bool) {
	th := middleware.NewThrottle(1, period)
	var starts []time.Time
	h := th.Middleware(func(m *message.Message) ([]*message.Message, error) {
		starts = append(starts, time.Now())
		return nil, nil
	})
	h(message.NewMessage("first", nil))
	time.Sleep(time.Duration(idlePeriods) * period)
	starts = nil
	for i := 0; i < burst; i++ {
		h(message.NewMessage(fmt.Sprint(i), nil))
	}
	span = starts[3].Sub(starts[0])
	return span, span >= period
}

func TestThrottleAfterIdle(t *testing.T) {
	rapid.Check(t, func(t *rapid.T) {
		period := time.Duration(rapid.IntRange(15, 30).Draw(t, "periodMs")) * time.Millisecond
		idle := rapid.IntRange(4, 10).Draw(t, "idlePeriods")
		burst := rapid.IntRange(4, 6).Draw(t, "burst")
		span, ok := throttleBurstAfterIdle(period, idle, burst)
		if !ok {
			span2, ok2 := throttleBurstAfterIdle(period, idle, burst)
			if !ok2 {
				t.Fatalf("violation: after %d idle periods four consecutive handler starts happened within %v (confirmed: %v); at 1 per %v they need more than one period", idle, span, span2, period)
			}
		}
		lib.Case(fmt.Sprintf("throttle-idle|%v|%d|%d", period, idle, burst), true, "throttle-after-idle")
		lib.Sample(map[string]any{"test": "ThrottleAfterIdle", "period": period.String(), "idle_periods": idle, "burst": burst, "first_to_fourth_start": span.String()})
	})
}
