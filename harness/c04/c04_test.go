// C04 — GoChannel delivers every published message to every current subscriber.
package c04

import (
	"testing"

	"github.com/ThreeDotsLabs/watermill/verifharness/gcprog"
	"github.com/ThreeDotsLabs/watermill/verifharness/lib"
	"pgregory.net/rapid"
)

func TestMain(m *testing.M) {
	lib.Extra("rule", "rapid-generated concurrent programs against a real GoChannel: config (buffer 0..4, persistent, blocking), 1..3 topics, 1..4 publishers (1..4 Publish calls of 1..3 fresh messages), "+
		"1..5 subscriptions (before / concurrently with / after a given Publish; per message a behaviour: ack, nack k times then ack, slow ack, edit metadata then ack/nack, hold, publish to a side topic first, cancel), "+
		"schedule noise and forced overlaps at the gochannel hook points, GOMAXPROCS varied. Oracle = invariants over the recorded history: every message whose Publish started after Subscribe returned reaches that subscription (no foreign topic), "+
		"redelivery only after a Nack and after every Nack until Ack, every delivery is a distinct copy equal to the published snapshot (edits and settlements never leak), delivery context derives from the Subscribe context, is live on receipt and cancelled after the Ack. "+
		"Non-trivial: >=2 subscriptions on one topic and >=1 Nack or metadata edit happened. Distinct by canonical program encoding.")
	lib.Extra("assumptions", []string{
		"no cross-publisher order, no order in persistent replay; a message whose Publish overlaps the Subscribe may or may not be delivered (non-persistent); cancelled subscriptions owe nothing",
		"excluded by construction (known finding C05-F1): blocking mode with a subscriber that publishes before acking while a Subscribe/cancel may wait for the write lock",
		"loss is reported only after the 10 s liveness bound expired and was re-confirmed with a doubled bound",
	})
	lib.Main(m)
}

func TestDelivery(t *testing.T) {
	rapid.Check(t, func(t *rapid.T) {
		gcprog.CheckProperty(t, "C04", "TestDelivery", gcprog.Opts{AllowForced: true})
	})
}

func TestReplayProgram(t *testing.T) { gcprog.ReplayFromEnv(t, 300) }
