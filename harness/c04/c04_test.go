// C04 — GoChannel delivers every published message to every current subscriber.
package c04

import (
	"context"
	"fmt"
	"sync"
	"testing"
	"time"

	"github.com/ThreeDotsLabs/watermill"
	"github.com/ThreeDotsLabs/watermill/message"
	"github.com/ThreeDotsLabs/watermill/pubsub/gochannel"

	"github.com/ThreeDotsLabs/watermill/verifharness/gcprog"
	"github.com/ThreeDotsLabs/watermill/verifharness/lib"
	"pgregory.net/rapid"
)

func TestMain(m *testing.M) {
	lib.Extra("rule", "rapid-generated concurrent programs against a real GoChannel: config (buffer 0..4, persistent, blocking), 1..3 topics, 1..4 publishers (1..4 Publish calls of 1..3 fresh messages), "+
		"1..5 subscriptions (before / concurrently with / after a given Publish; per message a behaviour: ack, nack k times then ack, slow ack, edit metadata then ack/nack, hold, publish to a side topic first, cancel), "+
		"schedule noise and forced overlaps at the gochannel hook points, GOMAXPROCS varied. Oracle = invariants over the recorded history: every message whose Publish started after Subscribe returned reaches that subscription (no foreign topic), "+
		"redelivery only after a Nack and after every Nack until Ack, every delivery is a distinct copy equal to the published snapshot (edits and settlements never leak), delivery context derives from the Subscribe context, is live on receipt and cancelled after the Ack. "+
		"Non-trivial: >=2 subscriptions on one topic and >=1 Nack or metadata edit happened. Distinct by canonical program encoding."+
		" 2 of 7 published originals were acked or nacked before Publish (forwarded messages): deliveries are copies with a life of their own, the original's state stays as it was.")
	lib.Extra("assumptions", []string{
		"no cross-publisher order, no order in persistent replay; a message whose Publish overlaps the Subscribe may or may not be delivered (non-persistent); cancelled subscriptions owe nothing",
		"excluded by construction (known finding C05-F1): blocking mode with a subscriber that publishes before acking while a Subscribe/cancel may wait for the write lock",
		"loss is reported only after the 10 s liveness bound expired and was re-confirmed with a doubled bound",
	})
	lib.Main(m)
}

func TestDelivery(t *testing.T) {
	rapid.Check(t, func(t *rapid.T) {
		gcprog.CheckProperty(t, "C04", "TestDelivery", gcprog.Opts{AllowForced: true})
	})
}

func TestReplayProgram(t *testing.T) { gcprog.ReplayFromEnv(t, 300) }

// ---------- a subscription that sits on an unsettled message does not hold back the others ----------

// "delivered ... to every subscription of that topic that existed when Publish was called": every subscription gets its copy
// whatever the others do with theirs. One subscription receives the first message and leaves it unsettled; every other
// subscription has to receive (and settle) that message while the first one is still holding.
func TestHoldingSubscriberDoesNotDelayOthers(t *testing.T) {
	rapid.Check(t, func(t *rapid.T) {
		cfg := gochannel.Config{
			OutputChannelBuffer: int64(rapid.IntRange(0, 4).Draw(t, "buffer")),
			Persistent:          rapid.Bool().Draw(t, "persistent"),
		}
		n := rapid.IntRange(2, 4).Draw(t, "subscriptions")
		holder := rapid.IntRange(0, n-1).Draw(t, "holderRegisteredAs")
		nmsgs := rapid.IntRange(1, 3).Draw(t, "messages")
		g := gochannel.NewGoChannel(cfg, watermill.NopLogger{})
		defer g.Close()
		chans := make([]<-chan *message.Message, n)
		for i := range chans {
			ch, err := g.Subscribe(context.Background(), "T")
			if err != nil {
				t.Fatalf("harness: %v", err)
			}
			chans[i] = ch
		}
		var mu sync.Mutex
		got := make([]map[string]int, n)
		for i := range got {
			got[i] = map[string]int{}
		}
		held := make(chan *message.Message, 1)
		for i, ch := range chans {
			go func(i int, ch <-chan *message.Message) {
				first := true
				for m := range ch {
					mu.Lock()
					got[i][m.UUID]++
					mu.Unlock()
					if i == holder && first {
						first = false
						held <- m // left unsettled for now
						continue
					}
					m.Ack()
				}
			}(i, ch)
		}
		for k := 0; k < nmsgs; k++ {
			if err := g.Publish("T", message.NewMessage(fmt.Sprintf("m%d", k), nil)); err != nil {
				t.Fatalf("harness: publish: %v", err)
			}
		}
		var heldMsg *message.Message
		select {
		case heldMsg = <-held:
		case <-time.After(lib.Live):
			t.Fatalf("violation: subscription %d never received a message", holder)
		}
		complete := func() bool {
			mu.Lock()
			defer mu.Unlock()
			for i := range got {
				if i == holder {
					continue
				}
				for k := 0; k < nmsgs; k++ {
					if got[i][fmt.Sprintf("m%d", k)] == 0 {
						return false
					}
				}
			}
			return true
		}
		if !lib.WaitUntil(lib.Live, complete) {
			mu.Lock()
			state := fmt.Sprint(got)
			mu.Unlock()
			heldMsg.Ack()
			t.Fatalf("violation: while subscription %d (of %d) held %s unsettled, the other subscriptions did not receive all %d messages within %v: %s (buffer %d, persistent %v)",
				holder, n, heldMsg.UUID, nmsgs, lib.Live, state, cfg.OutputChannelBuffer, cfg.Persistent)
		}
		heldMsg.Ack()
		lib.Case(fmt.Sprintf("holder|%+v|%d|%d|%d", cfg, n, holder, nmsgs), true, "holding-subscriber", fmt.Sprintf("buffer=%d", cfg.OutputChannelBuffer))
		lib.Sample(map[string]any{"test": "HoldingSubscriberDoesNotDelayOthers", "buffer": cfg.OutputChannelBuffer, "persistent": cfg.Persistent, "subscriptions": n, "holder": holder, "messages": nmsgs})
	})
}
