// C01 — End-to-end at-least-once through Router pipelines under faults.
package c01

import (
	"context"
	stderrors "errors"
	"fmt"
	"sort"
	"strings"
	"sync"
	"testing"
	"time"

	"github.com/ThreeDotsLabs/watermill"
	"github.com/ThreeDotsLabs/watermill/message"
	"github.com/ThreeDotsLabs/watermill/pubsub/gochannel"
	"github.com/ThreeDotsLabs/watermill/verifharness/lib"
	"pgregory.net/rapid"
)

func TestMain(m *testing.M) {
	lib.Extra("rule", "pipelines of Router handlers connected by GoChannel topics: 1..4 stages, optionally one fan-out stage (two handlers on one input topic) and a fan-in first stage (two source topics), 1..8 source messages, "+
		"GoChannel buffer 0..3, blocking on/off, one shared instance or one per hop; lineage-preserving handlers; fault script = list of (handler, kind in {handler error, handler panic, publisher error before forwarding, publisher panic, publisher error after forwarding}, k-th call). "+
		"Exhaustive: every placement of <=2 faults (k in 1..3) on linear pipelines of 1..2 (quick) / 1..3 (thorough) stages with 1..2 messages; random: up to 12 faults on all shapes with schedule noise at the router/gochannel hook points. "+
		"Oracle: every source message whose Publish returned nil arrives at the final topic at least once for every path of the shape; everything at the final topic derives from a published source (lineage, path and payload = expected transform); "+
		"inside every output Publish the consumed copy is unsettled; a consumed copy ends Acked only if its handler succeeded and its output Publish returned nil, otherwise Nacked. "+
		"Non-trivial: at least one scripted fault actually fired on a message that later reached the final topic."+
		" Topic names: t0..tN or generated strings (3 of 4 random cases).")
	lib.Extra("assumptions", []string{
		"no order and no exactly-once are demanded (duplicates are legal after a publisher error that happened after forwarding)",
		"the pipeline is fully Running before the first source publish (GoChannel is not persistent); Router.Close only after quiescence",
		"arrival is bounded liveness: 10 s, re-confirmed once with a doubled bound",
	})
	lib.Main(m)
}

const (
	fHandlerErr = iota
	fHandlerPanic
	fPubErrBefore
	fPubPanic
	fPubErrAfter
)

var faultNames = []string{"handler-error", "handler-panic", "publisher-error", "publisher-panic", "publisher-error-after-forwarding"}

type fault struct {
	Handler string
	Kind    int
	K       int
}

type hdef struct {
	Name  string
	In    string
	Out   string
	Multi bool // the handler returns two outputs (path segments name#a and name#b)
	Bare  bool // outputs are built as struct literals (no constructor, nil metadata): lineage travels in UUID and payload only
	Ctx   bool // the handler honours its message context (fails when it is already done)
	Pass  bool // the handler forwards the consumed message OBJECT itself (PassthroughHandler, FanIn/FanOut do): its context is the delivery's, which ends with the Ack
}

type pipeline struct {
	Stages   [][]hdef // handlers per stage
	Sources  []string // source topics
	Sink     string
	Buffer   int
	Blocking bool
	SharedGC bool
	Msgs     []string // source topic per message
	Faults   []fault
	Noise    []uint8
}

func (p pipeline) canon() string {
	var b strings.Builder
	for _, st := range p.Stages {
		b.WriteString("[")
		for _, h := range st {
			fmt.Fprintf(&b, "%s:%s>%s%s%s%s ", h.Name, h.In, h.Out, map[bool]string{true: "x2", false: ""}[h.Multi], map[bool]string{true: "bare", false: ""}[h.Bare], map[bool]string{true: "ctx", false: ""}[h.Ctx]+map[bool]string{true: "pass", false: ""}[h.Pass])
		}
		b.WriteString("]")
	}
	fmt.Fprintf(&b, "|buf%d block=%v shared=%v|msgs=%v|faults=", p.Buffer, p.Blocking, p.SharedGC, p.Msgs)
	fs := append([]fault(nil), p.Faults...)
	sort.Slice(fs, func(i, j int) bool { return fmt.Sprint(fs[i]) < fmt.Sprint(fs[j]) })
	for _, f := range fs {
		fmt.Fprintf(&b, "%s/%s@%d,", f.Handler, faultNames[f.Kind], f.K)
	}
	return b.String()
}

// linear builds a linear pipeline of n stages.
func linear(n int) pipeline {
	p := pipeline{Sources: []string{"t0"}, Sink: fmt.Sprintf("t%d", n)}
	for i := 1; i <= n; i++ {
		p.Stages = append(p.Stages, []hdef{{Name: fmt.Sprintf("h%d", i), In: fmt.Sprintf("t%d", i-1), Out: fmt.Sprintf("t%d", i)}})
	}
	return p
}

func genPipeline(t *rapid.T) pipeline {
	n := rapid.IntRange(1, 4).Draw(t, "stages")
	p := linear(n)
	if rapid.IntRange(0, 2).Draw(t, "fanIn") == 0 {
		// two source topics, one handler each, both publishing to t1
		p.Sources = []string{"t0", "t0b"}
		p.Stages[0] = []hdef{{Name: "h1", In: "t0", Out: "t1"}, {Name: "h1b", In: "t0b", Out: "t1"}}
	}
	if n >= 2 && rapid.IntRange(0, 2).Draw(t, "fanOut") == 0 {
		j := rapid.IntRange(1, n-1).Draw(t, "fanOutStage")
		h := p.Stages[j][0]
		p.Stages[j] = []hdef{h, {Name: h.Name + "x", In: h.In, Out: h.Out}}
	}
	if rapid.IntRange(0, 2).Draw(t, "multiOutputHandler") == 0 {
		j := rapid.IntRange(0, n-1).Draw(t, "multiOutputStage")
		p.Stages[j][0].Multi = true
	}
	for si := range p.Stages {
		for hi := range p.Stages[si] {
			p.Stages[si][hi].Bare = rapid.IntRange(0, 3).Draw(t, "structLiteralOutputs") == 0
			p.Stages[si][hi].Ctx = rapid.IntRange(0, 2).Draw(t, "contextAwareHandler") == 0
			if !p.Stages[si][hi].Multi && !p.Stages[si][hi].Bare {
				p.Stages[si][hi].Pass = rapid.IntRange(0, 3).Draw(t, "forwardsTheConsumedObject") == 0
			}
		}
	}
	p.Buffer = rapid.IntRange(0, 3).Draw(t, "buffer")
	p.Blocking = rapid.IntRange(0, 2).Draw(t, "blocking") == 0
	p.SharedGC = rapid.Bool().Draw(t, "sharedInstance")
	nm := rapid.IntRange(1, 8).Draw(t, "messages")
	for i := 0; i < nm; i++ {
		p.Msgs = append(p.Msgs, p.Sources[rapid.IntRange(0, len(p.Sources)-1).Draw(t, "sourceTopic")])
	}
	var names []string
	for _, st := range p.Stages {
		for _, h := range st {
			names = append(names, h.Name)
		}
	}
	nf := rapid.IntRange(0, 12).Draw(t, "faults")
	for i := 0; i < nf; i++ {
		p.Faults = append(p.Faults, fault{Handler: rapid.SampledFrom(names).Draw(t, "faultHandler"), Kind: rapid.IntRange(0, 4).Draw(t, "faultKind"), K: rapid.IntRange(1, 6).Draw(t, "faultOnCall")})
	}
	p.Noise = rapid.SliceOfN(rapid.Uint8Range(0, 5), 0, 10).Draw(t, "noise")
	if rapid.IntRange(0, 3).Draw(t, "topicNaming") > 0 {
		// topic names are the application's: any distinct strings serve (dotted, with slashes, long, differing in one character)
		ren := map[string]string{}
		// ... also the empty string (one topic at most, they stay distinct) and names with blanks around them
		all := append(append([]string{}, p.Sources...), p.Sink)
		for _, st := range p.Stages {
			all = append(all, st[0].Out)
		}
		if k := rapid.IntRange(-2*len(all), len(all)-1).Draw(t, "topicWithTheEmptyName"); k >= 0 {
			ren[all[k]] = ""
		}
		name := func(s string) string {
			if v, ok := ren[s]; ok {
				return v
			}
			ren[s] = rapid.SampledFrom([]string{"", "", "", " ", "\t"}).Draw(t, "topicLead") + s + rapid.SampledFrom([]string{".", "/", "-", "_", "", " "}).Draw(t, "topicSeparator") +
				rapid.StringMatching(`[a-zA-Z0-9._/-]{1,10}`).Draw(t, "topicNamePart") + rapid.SampledFrom([]string{"", "", "", " ", "\n"}).Draw(t, "topicTail")
			return ren[s]
		}
		for i := range p.Sources {
			p.Sources[i] = name(p.Sources[i])
		}
		p.Sink = name(p.Sink)
		for i := range p.Msgs {
			p.Msgs[i] = name(p.Msgs[i])
		}
		for si := range p.Stages {
			for hi := range p.Stages[si] {
				p.Stages[si][hi].In, p.Stages[si][hi].Out = name(p.Stages[si][hi].In), name(p.Stages[si][hi].Out)
			}
		}
	}
	return p
}

type invocation struct {
	id        int
	handler   string
	lineage   string
	consumed  *message.Message
	handlerOK bool
	published bool   // an output Publish call was made
	pubOK     bool   // it returned nil
	inside    string // settlement of the consumed copy sampled inside the output Publish
	fired     string // fault fired during this invocation
}

type faultyPub struct {
	inner   message.Publisher
	handler string
	w       *world
}

type world struct {
	mu       sync.Mutex
	byOut    map[*message.Message]*invocation // output object -> invocation that produced it
	invs     []*invocation
	hCalls   map[string]int
	pCalls   map[string]int
	faults   []fault
	inFlight int
}

func (w *world) faultFor(handler string, kinds []int, call int) (int, bool) {
	for _, f := range w.faults {
		if f.Handler == handler && f.K == call {
			for _, k := range kinds {
				if f.Kind == k {
					return k, true
				}
			}
		}
	}
	return 0, false
}

var errInjected = stderrors.New("injected fault")

// injErr varies what the injected error wraps (a fault is a fault, whatever is inside): plain, context.Canceled, context.DeadlineExceeded
func injErr(call int) error {
	switch call % 3 {
	case 1:
		return fmt.Errorf("%w: %w", errInjected, context.Canceled)
	case 2:
		return fmt.Errorf("%w: %w", errInjected, context.DeadlineExceeded)
	}
	return errInjected
}

func (p *faultyPub) Publish(topic string, msgs ...*message.Message) error {
	w := p.w
	w.mu.Lock()
	w.pCalls[p.handler]++
	call := w.pCalls[p.handler]
	var inv *invocation
	if len(msgs) > 0 {
		inv = w.byOut[msgs[0]]
	}
	kind, has := w.faultFor(p.handler, []int{fPubErrBefore, fPubPanic, fPubErrAfter}, call)
	if inv != nil {
		inv.published = true
		a, n := lib.Settled(inv.consumed)
		inv.inside = fmt.Sprintf("acked=%v nacked=%v", a, n)
		if has {
			inv.fired = faultNames[kind]
		}
	}
	w.mu.Unlock()
	if has {
		switch kind {
		case fPubErrBefore:
			return injErr(call)
		case fPubPanic:
			panic("injected publisher panic")
		}
	}
	err := p.inner.Publish(topic, msgs...)
	if has && kind == fPubErrAfter && err == nil {
		return injErr(call) // forwarded, but reported as failed: a duplicate downstream is legal
	}
	if inv != nil && err == nil {
		w.mu.Lock()
		inv.pubOK = true
		w.mu.Unlock()
	}
	return err
}

func (p *faultyPub) Close() error { return nil }

type arrival struct {
	lineage, path, payload string
}

// run executes the pipeline; returns violations and whether a fired fault hit a message that reached the sink.
func run(p pipeline) (viol []string, nontrivial bool) {
	bad := func(f string, a ...any) { viol = append(viol, fmt.Sprintf(f, a...)) }
	ctl := lib.Install()
	defer ctl.Uninstall()
	ctl.Noise(p.Noise)
	w := &world{hCalls: map[string]int{}, pCalls: map[string]int{}, faults: p.Faults, byOut: map[*message.Message]*invocation{}}
	cfg := gochannel.Config{OutputChannelBuffer: int64(p.Buffer), BlockPublishUntilSubscriberAck: p.Blocking}
	gcs := map[string]*gochannel.GoChannel{}
	shared := gochannel.NewGoChannel(cfg, watermill.NopLogger{})
	gcFor := func(topic string) *gochannel.GoChannel {
		if p.SharedGC {
			return shared
		}
		if g, ok := gcs[topic]; ok {
			return g
		}
		gcs[topic] = gochannel.NewGoChannel(cfg, watermill.NopLogger{})
		return gcs[topic]
	}
	router, err := message.NewRouter(message.RouterConfig{CloseTimeout: 5 * time.Second}, watermill.NopLogger{})
	if err != nil {
		return []string{"harness: " + err.Error()}, false
	}
	for _, st := range p.Stages {
		for _, h := range st {
			h := h
			router.AddHandler(h.Name, h.In, gcFor(h.In), h.Out, &faultyPub{inner: gcFor(h.Out), handler: h.Name, w: w}, func(m *message.Message) ([]*message.Message, error) {
				w.mu.Lock()
				w.hCalls[h.Name]++
				call := w.hCalls[h.Name]
				inv := &invocation{id: len(w.invs) + 1, handler: h.Name, lineage: m.UUID, consumed: m}
				w.invs = append(w.invs, inv)
				kind, has := w.faultFor(h.Name, []int{fHandlerErr, fHandlerPanic}, call)
				if has {
					inv.fired = faultNames[kind]
				}
				w.mu.Unlock()
				if has {
					if kind == fHandlerErr {
						return nil, injErr(call)
					}
					panic("injected handler panic")
				}
				if h.Ctx && m.Context().Err() != nil {
					return nil, m.Context().Err()
				}
				// handlers and middlewares write metadata of the consumed message (poison queue, delay, requeuer do)
				m.Metadata.Set("seen-by", h.Name)
				segs := []string{h.Name}
				if h.Multi {
					segs = []string{h.Name + "#a", h.Name + "#b"}
				}
				var outs []*message.Message
				if h.Pass {
					m.Payload = append(append([]byte(nil), m.Payload...), []byte("/"+h.Name)...)
					outs, segs = []*message.Message{m}, nil
				}
				for _, seg := range segs {
					payload := append(append([]byte(nil), m.Payload...), []byte("/"+seg)...)
					var out *message.Message
					if h.Bare {
						out = &message.Message{UUID: m.UUID, Payload: payload}
					} else {
						out = message.NewMessage(m.UUID, payload)
						out.Metadata.Set("produced-by", h.Name)
					}
					outs = append(outs, out)
				}
				w.mu.Lock()
				for _, o := range outs {
					w.byOut[o] = inv
				}
				inv.handlerOK = true
				w.mu.Unlock()
				return outs, nil
			})
		}
	}
	// sink
	sinkCtx, sinkCancel := context.WithCancel(context.Background())
	defer sinkCancel()
	sinkCh, err := gcFor(p.Sink).Subscribe(sinkCtx, p.Sink)
	if err != nil {
		return []string{"harness: " + err.Error()}, false
	}
	var amu sync.Mutex
	var arrivals []arrival
	go func() {
		for m := range sinkCh {
			amu.Lock()
			path := strings.TrimPrefix(string(m.Payload), m.UUID)
			arrivals = append(arrivals, arrival{m.UUID, path, string(m.Payload)})
			amu.Unlock()
			m.Ack()
		}
	}()
	go router.Run(context.Background())
	select {
	case <-router.Running():
	case <-time.After(lib.Live):
		return []string{"harness: router did not start"}, false
	}
	// expected paths per source topic
	paths := map[string][]string{}
	for _, src := range p.Sources {
		cur := map[string][]string{src: {""}}
		for _, st := range p.Stages {
			next := map[string][]string{}
			for _, h := range st {
				for _, pre := range cur[h.In] {
					if h.Multi {
						next[h.Out] = append(next[h.Out], pre+"/"+h.Name+"#a", pre+"/"+h.Name+"#b")
					} else {
						next[h.Out] = append(next[h.Out], pre+"/"+h.Name)
					}
				}
			}
			cur = next
		}
		paths[src] = cur[p.Sink]
	}
	// publish the sources
	type srcT struct{ id, topic string }
	var published []srcT
	for i, topic := range p.Msgs {
		id := fmt.Sprintf("src%d", i)
		m := message.NewMessage(id, []byte(id))
		done := make(chan error, 1)
		go func() { done <- gcFor(topic).Publish(topic, m) }()
		select {
		case err := <-done:
			if err == nil {
				published = append(published, srcT{id, topic})
			}
		case <-time.After(3 * lib.Live):
			bad("liveness: source Publish of %s did not return", id)
			return viol, false
		}
	}
	complete := func() bool {
		amu.Lock()
		defer amu.Unlock()
		have := map[string]bool{}
		for _, a := range arrivals {
			have[a.lineage+a.path] = true
		}
		for _, s := range published {
			for _, path := range paths[s.topic] {
				if !have[s.id+path] {
					return false
				}
			}
		}
		return true
	}
	if !lib.WaitUntil(lib.Live, complete) && !lib.WaitUntil(2*lib.Live, complete) {
		amu.Lock()
		have := map[string]bool{}
		for _, a := range arrivals {
			have[a.lineage+a.path] = true
		}
		amu.Unlock()
		for _, s := range published {
			for _, path := range paths[s.topic] {
				if !have[s.id+path] {
					bad("loss: source message %s (published on %s) never arrived at the final topic via %s", s.id, s.topic, path)
				}
			}
		}
	}
	// settle down, then shut down
	lib.WaitUntil(time.Second, func() bool {
		w.mu.Lock()
		defer w.mu.Unlock()
		for _, inv := range w.invs {
			if a, n := lib.Settled(inv.consumed); !a && !n {
				return false
			}
		}
		return true
	})
	time.Sleep(300 * time.Microsecond)
	closed := make(chan struct{})
	go func() {
		router.Close()
		shared.Close()
		for _, g := range gcs {
			g.Close()
		}
		close(closed)
	}()
	select {
	case <-closed:
	case <-time.After(2 * lib.Live):
		bad("liveness: shutdown did not finish")
	}
	// no invention
	pubSet := map[string]string{}
	for _, s := range published {
		pubSet[s.id] = s.topic
	}
	amu.Lock()
	arrived := map[string]bool{}
	for _, a := range arrivals {
		topic, ok := pubSet[a.lineage]
		if !ok {
			bad("invention: the final topic received a message with lineage %q that was never published", a.lineage)
			continue
		}
		okPath := false
		for _, path := range paths[topic] {
			if path == a.path {
				okPath = true
			}
		}
		if !okPath {
			bad("invention: %s arrived via path %q which the pipeline does not have", a.lineage, a.path)
		}
		if want := a.lineage + a.path; a.payload != want {
			bad("invention: %s arrived with payload %q, expected transform is %q", a.lineage, a.payload, want)
		}
		arrived[a.lineage] = true
	}
	amu.Unlock()
	// ack after accept
	w.mu.Lock()
	for _, inv := range w.invs {
		a, n := lib.Settled(inv.consumed)
		if inv.published && inv.inside != "acked=false nacked=false" {
			bad("ack-before-accept: %s consumed %s: already settled (%s) while its output was being published", inv.handler, inv.lineage, inv.inside)
		}
		ok := inv.handlerOK && inv.published && inv.pubOK
		switch {
		case a && !ok:
			bad("ack-without-accept: %s acked its copy of %s although handlerOK=%v published=%v publishOK=%v (fault %q)", inv.handler, inv.lineage, inv.handlerOK, inv.published, inv.pubOK, inv.fired)
		case !a && !n:
			bad("unsettled: %s never settled its copy of %s (handlerOK=%v publishOK=%v)", inv.handler, inv.lineage, inv.handlerOK, inv.pubOK)
		case n && ok:
			bad("nack-after-accept: %s nacked its copy of %s although the next topic accepted the output", inv.handler, inv.lineage)
		}
		if inv.fired != "" && arrived[inv.lineage] {
			nontrivial = true
		}
	}
	w.mu.Unlock()
	return viol, nontrivial
}

func report(t interface {
	Fatalf(string, ...any)
}, test string, p pipeline, v []string) {
	path := lib.WriteReplay(test, "C01", map[string]any{"property": "C01", "pipeline": p, "violations": v, "canon": p.canon()})
	if len(v) > 8 {
		v = v[:8]
	}
	t.Fatalf("violation of C01 (%d):\n  %s\npipeline: %s\nreplay: %s", len(v), strings.Join(v, "\n  "), p.canon(), path)
}

func TestRandomPipelines(t *testing.T) {
	rapid.Check(t, func(t *rapid.T) {
		p := genPipeline(t)
		v, nt := run(p)
		if len(v) > 0 {
			report(t, "TestRandomPipelines", p, v)
		}
		lib.Case(p.canon(), nt, fmt.Sprintf("stages=%d", len(p.Stages)), fmt.Sprintf("blocking=%v", p.Blocking))
		if nt {
			lib.Sample(map[string]any{"test": "RandomPipelines", "pipeline": p.canon()})
		}
	})
}

func TestExhaustiveFaultPlacements(t *testing.T) {
	only := lib.OnlyCase()
	total := 0
	var all []fault
	place := func(names []string) []fault {
		var out []fault
		for _, n := range names {
			for kind := 0; kind <= 4; kind++ {
				for k := 1; k <= 3; k++ {
					out = append(out, fault{n, kind, k})
				}
			}
		}
		return out
	}
	_ = all
	maxStages := lib.Pick(2, 3)
	for stages := 1; stages <= maxStages; stages++ {
		maxFaults := 2
		var names []string
		for i := 1; i <= stages; i++ {
			names = append(names, fmt.Sprintf("h%d", i))
		}
		pl := place(names)
		var sets [][]fault
		sets = append(sets, nil)
		for i := range pl {
			sets = append(sets, []fault{pl[i]})
		}
		if maxFaults >= 2 {
			for i := range pl {
				for j := i + 1; j < len(pl); j++ {
					sets = append(sets, []fault{pl[i], pl[j]})
				}
			}
		}
		for nm := 1; nm <= 2; nm++ {
			for si, fs := range sets {
				p := linear(stages)
				p.Stages[0][0].Multi = (si+nm)%2 == 0 // alternate single- and two-output first stages
				for i := 0; i < nm; i++ {
					p.Msgs = append(p.Msgs, "t0")
				}
				p.Faults = fs
				p.SharedGC = true
				id := p.canon()
				if only != "" && only != id {
					continue
				}
				total++
				v, nt := run(p)
				if len(v) > 0 {
					lib.Violation(t, "TestExhaustiveFaultPlacements", id, map[string]any{"pipeline": p, "violations": v})
					if only == "" {
						return
					}
				}
				lib.Case(id, nt, "exhaustive")
				if nt && total%97 == 0 {
					lib.Sample(map[string]any{"test": "ExhaustiveFaultPlacements", "pipeline": id})
				}
			}
		}
	}
	lib.Count("exhaustive_runs", int64(total))
	lib.Exhaustive(fmt.Sprintf("placements of <=2 faults (5 kinds, k in 1..3) on linear pipelines of 1..%d stages, 1..2 messages", maxStages), only == "" && !t.Failed())
}
