// C11 — Persistent GoChannel replays the whole topic to every subscription exactly once.
package c11

import (
	"context"
	"encoding/json"
	"fmt"
	"os"
	"strings"
	"sync"
	"testing"
	"time"

	"github.com/ThreeDotsLabs/watermill"
	"github.com/ThreeDotsLabs/watermill/message"
	"github.com/ThreeDotsLabs/watermill/pubsub/gochannel"

	"github.com/ThreeDotsLabs/watermill/verifharness/gcprog"
	"github.com/ThreeDotsLabs/watermill/verifharness/lib"
	"pgregory.net/rapid"
)

func TestMain(m *testing.M) {
	lib.Extra("rule", "the GoChannel program generator of C04 with Persistent forced on: Subscribe calls before, concurrently with and after Publish calls on the same topic, with forced overlaps (a Publish parked after persisting / holding the locks while a Subscribe runs, a Subscribe parked before the replay / after registering while a Publish runs), buffers 0..4, blocking on/off. "+
		"Oracle at quiescence: for every subscription created before Close and every successfully published message of its topic, the number of deliveries is 1 + its Nacks and exactly one is Acked (always-ack subscribers: exactly one delivery) - no miss, no double. "+
		"Non-trivial: a Subscribe call interval overlaps a Publish call interval on the same topic. Distinct by canonical program encoding.")
	lib.Extra("assumptions", []string{
		"no order is demanded in persistent mode (godoc); cancelled subscriptions owe nothing",
	})
	lib.Main(m)
}

func TestReplayExactlyOnce(t *testing.T) {
	rapid.Check(t, func(t *rapid.T) {
		o := gcprog.Opts{ForcePersistent: gcprog.Bool(true), AllowForced: true, AlwaysAck: rapid.Bool().Draw(t, "alwaysAck")}
		gcprog.CheckProperty(t, "C11", "TestReplayExactlyOnce", o)
	})
}

func TestReplayProgram(t *testing.T) { gcprog.ReplayFromEnv(t, 300) }

// Long topic histories: a subscription created while publishers are active on a topic that already
// holds many messages must still receive every message of the topic exactly once.
func TestLongHistoryOverlap(t *testing.T) {
	rapid.Check(t, func(t *rapid.T) {
		sizes := []int{0, 7, 500, 1000, 1023, 1024, 1025, 1500, 2100, 3000}
		if lib.Thorough() {
			sizes = append(sizes, 4096, 5000, 10000, 20000)
		}
		hist := rapid.SampledFrom(sizes).Draw(t, "historySize")
		buffer := rapid.IntRange(0, 4).Draw(t, "buffer")
		blocking := rapid.IntRange(0, 3).Draw(t, "blocking") == 0
		np := rapid.IntRange(1, 8).Draw(t, "publishers")
		per := rapid.IntRange(1, 30).Draw(t, "publishesEach")
		nsubs := rapid.IntRange(1, 3).Draw(t, "lateSubscriptions")
		// other subscriptions whose consumers never read (same topic, and another topic with its own history): what THIS
		// subscription receives does not depend on them. Not in blocking mode, where publishers wait for every subscriber.
		idle := 0
		if !blocking {
			idle = rapid.SampledFrom([]int{0, 0, 1, 2}).Draw(t, "idleSubscriptionsElsewhere")
		}
		idleSubs = idle
		problems, overlap := runLongHistory(hist, buffer, blocking, np, per, nsubs)
		canon := fmt.Sprintf("long|%d|%d|%v|%d|%d|%d|idle%d", hist, buffer, blocking, np, per, nsubs, idle)
		if len(problems) > 0 {
			path := lib.WriteReplay("TestReplayLongHistory", "C11-TestLongHistoryOverlap", map[string]any{"property": "C11", "canon": canon, "violations": problems,
				"hist": hist, "buffer": buffer, "blocking": blocking, "publishers": np, "per": per, "subs": nsubs, "idle": idle})
			t.Fatalf("violation of C11 (%d):\n  %s\ncase: %s\nreplay: %s", len(problems), strings.Join(problems, "\n  "), canon, path)
		}
		lib.Case(canon, overlap, "long-history", fmt.Sprintf("history>=1025:%v", hist >= 1025))
		if overlap {
			lib.Sample(map[string]any{"test": "LongHistoryOverlap", "case": canon})
		}
	})
}

// idleSubs: number of never-read subscriptions created before the measured ones (set by the test, kept by the replay entry point)
var idleSubs int

func runLongHistory(hist, buffer int, blocking bool, np, per, nsubs int) (problems []string, overlap bool) {
	g := gochannel.NewGoChannel(gochannel.Config{OutputChannelBuffer: int64(buffer), Persistent: true, BlockPublishUntilSubscriberAck: blocking}, watermill.NopLogger{})
	want := map[string]bool{}
	for i := 0; i < hist; i += 50 {
		var batch []*message.Message
		for k := i; k < i+50 && k < hist; k++ {
			id := fmt.Sprintf("h%d", k)
			want[id] = true
			batch = append(batch, message.NewMessage(id, nil))
		}
		if err := g.Publish("topic", batch...); err != nil {
			return []string{"harness: publish failed: " + err.Error()}, false
		}
	}
	for k := 0; k < idleSubs; k++ {
		topic := "topic"
		if k == 1 {
			// a second topic with as much history, and nobody ever reads its subscription
			topic = "other-topic"
			for i := 0; i < hist; i += 50 {
				var batch []*message.Message
				for j := i; j < i+50 && j < hist; j++ {
					batch = append(batch, message.NewMessage(fmt.Sprintf("o%d", j), nil))
				}
				if err := g.Publish(topic, batch...); err != nil {
					return []string{"harness: publish failed: " + err.Error()}, false
				}
			}
		}
		if _, err := g.Subscribe(context.Background(), topic); err != nil {
			return []string{"harness: subscribe failed: " + err.Error()}, false
		}
	}
	var mu sync.Mutex
	type subT struct {
		got        map[string]int
		start, end int64
	}
	subs := make([]*subT, nsubs)
	var pubIntervals [][2]int64
	start := make(chan struct{})
	var wg, cwg sync.WaitGroup
	for si := range subs {
		subs[si] = &subT{got: map[string]int{}}
		wg.Add(1)
		go func(s *subT) {
			defer wg.Done()
			<-start
			s.start = lib.Tick()
			ch, err := g.Subscribe(context.Background(), "topic")
			s.end = lib.Tick()
			if err != nil {
				mu.Lock()
				problems = append(problems, "harness: subscribe failed: "+err.Error())
				mu.Unlock()
				return
			}
			cwg.Add(1)
			go func() {
				defer cwg.Done()
				for m := range ch {
					mu.Lock()
					s.got[m.UUID]++
					mu.Unlock()
					m.Ack()
				}
			}()
		}(subs[si])
	}
	for p := 0; p < np; p++ {
		wg.Add(1)
		go func(p int) {
			defer wg.Done()
			<-start
			for c := 0; c < per; c++ {
				id := fmt.Sprintf("p%dc%d", p, c)
				a := lib.Tick()
				err := g.Publish("topic", message.NewMessage(id, nil))
				b := lib.Tick()
				mu.Lock()
				if err == nil {
					want[id] = true
				}
				pubIntervals = append(pubIntervals, [2]int64{a, b})
				mu.Unlock()
			}
		}(p)
	}
	close(start)
	done := make(chan struct{})
	go func() { wg.Wait(); close(done) }()
	select {
	case <-done:
	case <-time.After(3 * lib.Live):
		return []string{"liveness: Publish/Subscribe calls did not return"}, false
	}
	complete := func() bool {
		mu.Lock()
		defer mu.Unlock()
		for _, s := range subs {
			if len(s.got) < len(want) {
				return false
			}
		}
		return true
	}
	if !lib.WaitUntil(lib.Live, complete) {
		lib.WaitUntil(2*lib.Live, complete)
	}
	time.Sleep(time.Millisecond)
	closed := make(chan struct{})
	go func() { g.Close(); close(closed) }()
	select {
	case <-closed:
	case <-time.After(lib.Live):
		return append(problems, "liveness: Close did not return"), false
	}
	cwg.Wait()
	mu.Lock()
	defer mu.Unlock()
	for si, s := range subs {
		missing, doubled := 0, 0
		example := ""
		for id := range want {
			switch n := s.got[id]; {
			case n == 0:
				missing++
				example = id
			case n > 1:
				doubled++
				example = id
			}
		}
		if missing > 0 || doubled > 0 {
			problems = append(problems, fmt.Sprintf("replay: late subscription #%d (Subscribe %d..%d) on a topic with %d earlier messages and %d concurrent publishers: %d messages missing, %d doubled (e.g. %s) of %d",
				si, s.start, s.end, hist, np, missing, doubled, example, len(want)))
		}
		for _, iv := range pubIntervals {
			if s.start < iv[1] && iv[0] < s.end {
				overlap = true
			}
		}
	}
	return problems, overlap
}

func TestReplayLongHistory(t *testing.T) {
	path := lib.OnlyCase()
	if path == "" {
		t.Skip("no replay file given")
	}
	b, err := os.ReadFile(path)
	if err != nil {
		t.Fatal(err)
	}
	var f struct {
		Details struct {
			Hist, Buffer, Publishers, Per, Subs, Idle int
			Blocking                                  bool
		}
	}
	if err := json.Unmarshal(b, &f); err != nil {
		t.Fatal(err)
	}
	d := f.Details
	idleSubs = d.Idle
	for i := 0; i < 100; i++ {
		if p, _ := runLongHistory(d.Hist, d.Buffer, d.Blocking, d.Publishers, d.Per, d.Subs); len(p) > 0 {
			t.Fatalf("violation of C11 reproduced at attempt %d:\n  %s", i+1, strings.Join(p, "\n  "))
		}
	}
}
