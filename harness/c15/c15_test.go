// C15 — CQRS buses and processors dispatch by type name with the configured ack policy.
package c15

import (
	"context"
	stderrors "errors"
	"fmt"
	"reflect"
	"strings"
	"testing"
	"time"

	"github.com/ThreeDotsLabs/watermill"
	"github.com/ThreeDotsLabs/watermill/components/cqrs"
	"github.com/ThreeDotsLabs/watermill/message"
	"github.com/ThreeDotsLabs/watermill/verifharness/lib"
	"google.golang.org/protobuf/proto"
	"google.golang.org/protobuf/types/known/durationpb"
	"google.golang.org/protobuf/types/known/wrapperspb"
	"pgregory.net/rapid"
)

func TestMain(m *testing.M) {
	lib.Extra("rule", "rapid-generated CQRS cases: processor kind {command, event, event group} x marshaler {JSON, Proto} x name generator {default, StructName, NamedStruct} x flags {AckOnUnknownEvent, AckCommandHandlingErrors} x "+
		"a registry of handlers over a family of 4 types per marshaler (command: unique per type; event: several per type; group: ordered list with repeated types) x a stream of messages "+
		"{value sent through the real bus (incl. zero values), type without handler, malformed payload under a known name, foreign message without name} each delivered to a chosen handler's subscription, with a per-delivery set of failing handlers. "+
		"Oracle = model of the bus Publish (topic, name metadata, payload decodes to the value) and of the invoked handler list (order, values, original message in ctx) and settlement. "+
		"Non-trivial: the stream contains a non-matching/malformed message or a failing handler. Distinct by canonical case encoding."+
		" Deliveries may carry a context that already names another original message; handlers may relabel the message they were shown (dispatch is judged by the name it arrived with).")
	lib.Extra("assumptions", []string{
		"topics are scripted: the harness delivers a message to a handler's subscription, the processor decides by type name",
		"malformed payload: handler not invoked and the message is not acked (Nack expected)",
	})
	lib.Main(m)
}

// ---------- type family ----------

type E1 struct {
	A string
	N int64
}
type E2 struct{ X []string }

func (E2) Name() string { return "custom-e2" }

type E3 struct {
	M map[string]int
	B bool
}
type E4 struct{ F float64 }

type typeInfo struct {
	label     string
	zero      func() any
	gen       func(t *rapid.T) any
	equal     func(a, b any) bool
	cmd       func(name string, f func(ctx context.Context, v any) error) cqrs.CommandHandler
	evt       func(name string, f func(ctx context.Context, v any) error) cqrs.EventHandler
	grp       func(f func(ctx context.Context, v any) error) cqrs.GroupEventHandler
	malformed []byte
}

func mk[T any](label string, gen func(t *rapid.T) *T, equal func(a, b *T) bool, malformed []byte) typeInfo {
	return typeInfo{
		label: label,
		zero:  func() any { return new(T) },
		gen:   func(t *rapid.T) any { return gen(t) },
		equal: func(a, b any) bool {
			x, ok1 := a.(*T)
			y, ok2 := b.(*T)
			return ok1 && ok2 && equal(x, y)
		},
		cmd: func(name string, f func(ctx context.Context, v any) error) cqrs.CommandHandler {
			return cqrs.NewCommandHandler[T](name, func(ctx context.Context, c *T) error { return f(ctx, c) })
		},
		evt: func(name string, f func(ctx context.Context, v any) error) cqrs.EventHandler {
			return cqrs.NewEventHandler[T](name, func(ctx context.Context, c *T) error { return f(ctx, c) })
		},
		grp: func(f func(ctx context.Context, v any) error) cqrs.GroupEventHandler {
			return cqrs.NewGroupEventHandler[T](func(ctx context.Context, c *T) error { return f(ctx, c) })
		},
		malformed: malformed,
	}
}

func deep[T any](a, b *T) bool { return reflect.DeepEqual(a, b) }
func peq[T any, P interface {
	*T
	proto.Message
}](a, b *T) bool {
	return proto.Equal(P(a), P(b))
}

var jsonTypes = []typeInfo{
	mk[E1]("E1", func(t *rapid.T) *E1 {
		return &E1{A: lib.GenUTF8().Draw(t, "A"), N: rapid.Int64().Draw(t, "N")}
	}, deep[E1], []byte("{")),
	mk[E2]("E2", func(t *rapid.T) *E2 {
		e := &E2{}
		if rapid.Bool().Draw(t, "hasX") {
			e.X = rapid.SliceOfN(lib.GenUTF8(), 0, 3).Draw(t, "X")
		}
		return e
	}, deep[E2], []byte(`{"X": 5}`)),
	mk[E3]("E3", func(t *rapid.T) *E3 {
		e := &E3{B: rapid.Bool().Draw(t, "B")}
		if rapid.Bool().Draw(t, "hasM") {
			e.M = rapid.MapOfN(lib.GenKey(), rapid.Int(), 0, 3).Draw(t, "M")
		}
		return e
	}, deep[E3], []byte("not json")),
	mk[E4]("E4", func(t *rapid.T) *E4 { return &E4{F: float64(rapid.Int32().Draw(t, "F")) / 8} }, deep[E4], []byte(`{"F":"x"}`)),
}

var protoTypes = []typeInfo{
	mk[wrapperspb.StringValue]("StringValue", func(t *rapid.T) *wrapperspb.StringValue {
		return wrapperspb.String(lib.GenUTF8().Draw(t, "s"))
	}, peq[wrapperspb.StringValue], []byte{0xff, 0xff, 0xff}),
	mk[wrapperspb.Int64Value]("Int64Value", func(t *rapid.T) *wrapperspb.Int64Value {
		return wrapperspb.Int64(rapid.SampledFrom([]int64{0, 0, 1, -1, 1 << 40}).Draw(t, "i"))
	}, peq[wrapperspb.Int64Value], []byte{0x08}),
	mk[durationpb.Duration]("Duration", func(t *rapid.T) *durationpb.Duration {
		return &durationpb.Duration{Seconds: rapid.Int64Range(0, 100).Draw(t, "sec"), Nanos: rapid.Int32Range(0, 999).Draw(t, "ns")}
	}, peq[durationpb.Duration], []byte{0x0a, 0x05}),
	mk[wrapperspb.BoolValue]("BoolValue", func(t *rapid.T) *wrapperspb.BoolValue {
		return wrapperspb.Bool(rapid.Bool().Draw(t, "b"))
	}, peq[wrapperspb.BoolValue], []byte{0x08, 0xff}),
}

// ---------- case ----------

type hspec struct {
	Type int // index into the family (0..2 have handlers; 3 is the "unknown" type)
}

type item struct {
	Kind   int // 0 value through the bus, 1 unknown type through the bus, 2 malformed payload under a known name, 3 foreign message without name
	Type   int
	Target int          // which handler / group subscription receives it
	Fail   map[int]bool // handler indices failing for this delivery
}

var errHandler = stderrors.New("scripted handler failure")

type invoked struct {
	handler int
	value   any
	shown   string // the received value, printed at the moment of the invocation
	equalOK bool   // whether it equalled the sent value at that moment (handlers scribble over it afterwards)
	orig    *message.Message
}

// scribble overwrites the value a handler was given: handlers own what they receive (enrich it, normalise it, reuse it),
// and what one handler does to its value must not be seen by the next handler of the same message.
func scribble(v any) {
	if pm, ok := v.(proto.Message); ok {
		proto.Reset(pm)
		return
	}
	rv := reflect.ValueOf(v)
	if rv.Kind() == reflect.Ptr && !rv.IsNil() {
		pollute(rv.Elem())
	}
}

// pollute fills a value with junk (not zeroes: a decoder that is handed a re-used object leaves absent fields alone, so
// zeroes would hide the re-use, junk shows it).
func pollute(v reflect.Value) {
	if !v.CanSet() {
		return
	}
	switch v.Kind() {
	case reflect.String:
		v.SetString("scribbled-by-an-earlier-handler")
	case reflect.Int, reflect.Int8, reflect.Int16, reflect.Int32, reflect.Int64:
		v.SetInt(77)
	case reflect.Uint, reflect.Uint8, reflect.Uint16, reflect.Uint32, reflect.Uint64:
		v.SetUint(77)
	case reflect.Float32, reflect.Float64:
		v.SetFloat(7.75)
	case reflect.Bool:
		v.SetBool(!v.Bool())
	case reflect.Struct:
		for i := 0; i < v.NumField(); i++ {
			pollute(v.Field(i))
		}
	case reflect.Slice:
		e := reflect.New(v.Type().Elem()).Elem()
		pollute(e)
		v.Set(reflect.Append(v, e))
	case reflect.Map:
		if v.IsNil() {
			v.Set(reflect.MakeMap(v.Type()))
		}
		k := reflect.New(v.Type().Key()).Elem()
		e := reflect.New(v.Type().Elem()).Elem()
		pollute(k)
		pollute(e)
		v.SetMapIndex(k, e)
	}
}

func TestCQRSDispatch(t *testing.T) {
	rapid.Check(t, func(t *rapid.T) {
		kind := rapid.SampledFrom([]string{"command", "event", "group"}).Draw(t, "processor")
		useProto := rapid.Bool().Draw(t, "protoMarshaler")
		ngName, ng := genNameGen(t)
		ackUnknown := rapid.Bool().Draw(t, "ackOnUnknownEvent")
		ackCmdErr := rapid.Bool().Draw(t, "ackCommandHandlingErrors")
		useOnHandle := rapid.Bool().Draw(t, "onHandleHook")
		var hookProblems []string
		var hookCalls int
		fam := jsonTypes
		var marshaler cqrs.CommandEventMarshaler = cqrs.JSONMarshaler{GenerateName: ng}
		if useProto {
			fam = protoTypes
			marshaler = cqrs.ProtoMarshaler{GenerateName: ng}
		}
		// registry
		var hs []hspec
		switch kind {
		case "command":
			n := rapid.IntRange(1, 3).Draw(t, "handlers")
			perm := rapid.Permutation([]int{0, 1, 2}).Draw(t, "types")
			for i := 0; i < n; i++ {
				hs = append(hs, hspec{Type: perm[i]})
			}
		default:
			n := rapid.IntRange(1, 5).Draw(t, "handlers")
			for i := 0; i < n; i++ {
				hs = append(hs, hspec{Type: rapid.IntRange(0, 2).Draw(t, "handlerType")})
			}
		}
		nGroups := 1
		groupOf := make([]int, len(hs))
		if kind == "group" {
			nGroups = rapid.IntRange(1, 2).Draw(t, "groups")
			for i := range hs {
				groupOf[i] = rapid.IntRange(0, nGroups-1).Draw(t, "groupOf")
			}
			// every group needs at least one handler
			present := map[int]bool{}
			for _, g := range groupOf {
				present[g] = true
			}
			if len(present) < nGroups {
				nGroups = 1
				for i := range groupOf {
					groupOf[i] = 0
				}
			}
		}

		router, err := message.NewRouter(message.RouterConfig{CloseTimeout: 5 * time.Second}, watermill.NopLogger{})
		if err != nil {
			t.Fatalf("NewRouter: %v", err)
		}
		var calls []invoked
		var failNow map[int]bool
		var curEqual func(received any) bool // set per item: compares with the value that was sent
		arrivedName := ""                    // set per item: the name the message carried when it was delivered
		curErr := errHandler                 // set per item: what a failing handler returns
		relabelTo := ""                      // set per item: handlers write this name into the message they were given
		mkFn := func(idx int) func(ctx context.Context, v any) error {
			return func(ctx context.Context, v any) error {
				calls = append(calls, invoked{handler: idx, value: v, shown: fmt.Sprintf("%v", v), equalOK: curEqual != nil && curEqual(v), orig: cqrs.OriginalMessageFromCtx(ctx)})
				scribble(v)
				if o := cqrs.OriginalMessageFromCtx(ctx); o != nil && relabelTo != "" {
					// ... and so does the message: a delivery is dispatched by the name it arrived with, whatever a handler
					// writes into the message it was shown
					o.Metadata["name"] = relabelTo
				}
				if failNow[idx] {
					return curErr
				}
				return nil
			}
		}
		subsByName := map[string]*lib.ScriptSub{}
		newSub := func(name string) *lib.ScriptSub {
			s := lib.NewScriptSub("")
			subsByName[name] = s
			return s
		}
		targets := []string{}
		switch kind {
		case "command":
			cp, err := cqrs.NewCommandProcessorWithConfig(router, cqrs.CommandProcessorConfig{
				GenerateSubscribeTopic: func(p cqrs.CommandProcessorGenerateSubscribeTopicParams) (string, error) {
					return "cmd." + p.CommandName, nil
				},
				SubscriberConstructor: func(p cqrs.CommandProcessorSubscriberConstructorParams) (message.Subscriber, error) {
					return newSub(p.HandlerName), nil
				},
				Marshaler:                marshaler,
				AckCommandHandlingErrors: ackCmdErr,
				OnHandle: func() cqrs.CommandProcessorOnHandleFn {
					if !useOnHandle {
						return nil
					}
					return func(p cqrs.CommandProcessorOnHandleParams) error {
						hookCalls++
						if p.Message == nil || p.Handler == nil || p.Command == nil || p.CommandName != arrivedName {
							hookProblems = append(hookProblems, fmt.Sprintf("OnHandle params incomplete: name %q msg %v", p.CommandName, p.Message != nil))
						}
						return p.Handler.Handle(p.Message.Context(), p.Command)
					}
				}(),
			})
			if err != nil {
				t.Fatalf("NewCommandProcessorWithConfig: %v", err)
			}
			for i, h := range hs {
				name := fmt.Sprintf("h%d", i)
				if _, err := cp.AddHandler(fam[h.Type].cmd(name, mkFn(i))); err != nil {
					t.Fatalf("AddHandler: %v", err)
				}
				targets = append(targets, name)
			}
		case "event":
			ep, err := cqrs.NewEventProcessorWithConfig(router, cqrs.EventProcessorConfig{
				GenerateSubscribeTopic: func(p cqrs.EventProcessorGenerateSubscribeTopicParams) (string, error) {
					return "evt." + p.EventName, nil
				},
				SubscriberConstructor: func(p cqrs.EventProcessorSubscriberConstructorParams) (message.Subscriber, error) {
					return newSub(p.HandlerName), nil
				},
				Marshaler:         marshaler,
				AckOnUnknownEvent: ackUnknown,
				OnHandle: func() cqrs.EventProcessorOnHandleFn {
					if !useOnHandle {
						return nil
					}
					return func(p cqrs.EventProcessorOnHandleParams) error {
						hookCalls++
						if p.Message == nil || p.Handler == nil || p.Event == nil || p.EventName != arrivedName {
							hookProblems = append(hookProblems, fmt.Sprintf("OnHandle params incomplete: name %q msg %v", p.EventName, p.Message != nil))
						}
						return p.Handler.Handle(p.Message.Context(), p.Event)
					}
				}(),
			})
			if err != nil {
				t.Fatalf("NewEventProcessorWithConfig: %v", err)
			}
			for i, h := range hs {
				name := fmt.Sprintf("h%d", i)
				if _, err := ep.AddHandler(fam[h.Type].evt(name, mkFn(i))); err != nil {
					t.Fatalf("AddHandler: %v", err)
				}
				targets = append(targets, name)
			}
		case "group":
			gp, err := cqrs.NewEventGroupProcessorWithConfig(router, cqrs.EventGroupProcessorConfig{
				GenerateSubscribeTopic: func(p cqrs.EventGroupProcessorGenerateSubscribeTopicParams) (string, error) {
					return "grp." + p.EventGroupName, nil
				},
				SubscriberConstructor: func(p cqrs.EventGroupProcessorSubscriberConstructorParams) (message.Subscriber, error) {
					return newSub(p.EventGroupName), nil
				},
				Marshaler:         marshaler,
				AckOnUnknownEvent: ackUnknown,
				OnHandle: func() cqrs.EventGroupProcessorOnHandleFn {
					if !useOnHandle {
						return nil
					}
					return func(p cqrs.EventGroupProcessorOnHandleParams) error {
						hookCalls++
						if p.Message == nil || p.Handler == nil || p.Event == nil || p.EventName != arrivedName || p.GroupName == "" {
							hookProblems = append(hookProblems, fmt.Sprintf("OnHandle params incomplete: name %q group %q", p.EventName, p.GroupName))
						}
						return p.Handler.Handle(p.Message.Context(), p.Event)
					}
				}(),
			})
			if err != nil {
				t.Fatalf("NewEventGroupProcessorWithConfig: %v", err)
			}
			for g := 0; g < nGroups; g++ {
				var ghs []cqrs.GroupEventHandler
				for i, h := range hs {
					if groupOf[i] == g {
						ghs = append(ghs, fam[h.Type].grp(mkFn(i)))
					}
				}
				name := fmt.Sprintf("g%d", g)
				if err := gp.AddHandlersGroup(name, ghs...); err != nil {
					t.Fatalf("AddHandlersGroup: %v", err)
				}
				targets = append(targets, name)
			}
		}
		busPub := lib.NewScriptPub("")
		var send func(v any) error
		topicPrefix := "bus."
		// the configured generator may look at more than the name (the value: per-tenant topics; other state): the
		// harness changes this variant between sends and every value must go where the generator says NOW
		topicVariant := ""
		if kind == "command" {
			bus, err := cqrs.NewCommandBusWithConfig(busPub, cqrs.CommandBusConfig{
				GeneratePublishTopic: func(p cqrs.CommandBusGeneratePublishTopicParams) (string, error) {
					if topicVariant == "<empty>" {
						return "", nil
					}
					return topicPrefix + p.CommandName + topicVariant, nil
				},
				Marshaler: marshaler,
			})
			if err != nil {
				t.Fatalf("NewCommandBusWithConfig: %v", err)
			}
			send = func(v any) error { return bus.Send(context.Background(), v) }
		} else {
			bus, err := cqrs.NewEventBusWithConfig(busPub, cqrs.EventBusConfig{
				GeneratePublishTopic: func(p cqrs.GenerateEventPublishTopicParams) (string, error) {
					if topicVariant == "<empty>" {
						return "", nil
					}
					return topicPrefix + p.EventName + topicVariant, nil
				},
				Marshaler: marshaler,
			})
			if err != nil {
				t.Fatalf("NewEventBusWithConfig: %v", err)
			}
			send = func(v any) error { return bus.Publish(context.Background(), v) }
		}
		go router.Run(context.Background())
		select {
		case <-router.Running():
		case <-time.After(lib.Live):
			t.Fatalf("harness: router did not start")
		}
		defer func() {
			done := make(chan struct{})
			go func() { router.Close(); close(done) }()
			select {
			case <-done:
			case <-time.After(lib.Live):
			}
		}()

		nItems := rapid.IntRange(1, 6).Draw(t, "stream")
		interesting := false
		canon := fmt.Sprintf("%s|proto=%v|%s|%v|%v|%v|%v|hook=%v|", kind, useProto, ngName, ackUnknown, ackCmdErr, hs, groupOf, useOnHandle)
		for n := 0; n < nItems; n++ {
			it := item{Kind: rapid.SampledFrom([]int{0, 0, 0, 1, 2, 3}).Draw(t, "itemKind"), Fail: map[int]bool{}}
			it.Type = rapid.IntRange(0, 2).Draw(t, "itemType")
			if it.Kind == 1 {
				it.Type = 3
			}
			it.Target = rapid.IntRange(0, len(targets)-1).Draw(t, "target")
			for i := range hs {
				if rapid.IntRange(0, 3).Draw(t, "handlerFails") == 0 {
					it.Fail[i] = true
				}
			}
			ti := fam[it.Type]
			var v any
			var msg *message.Message
			msgName := ""
			switch it.Kind {
			case 0, 1, 2:
				v = ti.gen(t)
				topicVariant = rapid.SampledFrom([]string{"", "", ".tenant-a", ".tenant-b", "<empty>"}).Draw(t, "publishTopicVariant")
				before := len(busPub.Calls())
				if err := send(v); err != nil {
					t.Fatalf("violation: bus refused %T %v: %v", v, v, err)
				}
				pcs := busPub.Calls()[before:]
				if len(pcs) != 1 || len(pcs[0].Msgs) != 1 {
					t.Fatalf("violation: bus made %d Publish calls for one value", len(pcs))
				}
				msgName = marshaler.Name(v)
				wantTopic := topicPrefix + msgName + topicVariant
				if topicVariant == "<empty>" {
					wantTopic = "" // the generator may say "": that is the topic then
				}
				if pcs[0].Topic != wantTopic {
					t.Fatalf("violation: bus published on %q, the configured generator says %q for this value", pcs[0].Topic, wantTopic)
				}
				pm := pcs[0].Msgs[0]
				if got := marshaler.NameFromMessage(pm); got != msgName {
					t.Fatalf("violation: published message carries name %q, value's name is %q", got, msgName)
				}
				back := ti.zero()
				if err := marshaler.Unmarshal(pm.Copy(), back); err != nil || !ti.equal(v, back) {
					t.Fatalf("violation: published payload does not decode to the sent value: %v (%v -> %v)", err, v, back)
				}
				msg = pm.Copy()
				if !useProto && it.Kind == 0 && rapid.IntRange(0, 3).Draw(t, "producerAddsAFieldTheHandlerTypeLacks") == 0 && len(msg.Payload) > 1 && msg.Payload[len(msg.Payload)-1] == '}' {
					// a newer producer: same name, a valid document with one more field. The name matches, so the handler
					// is invoked (with the fields it knows) exactly as for any other message of that name.
					sep := ","
					if string(msg.Payload) == "{}" {
						sep = ""
					}
					msg.Payload = append(append([]byte(nil), msg.Payload[:len(msg.Payload)-1]...), []byte(sep+`"zz_added_by_a_newer_producer":{"x":[1,2]}}`)...)
				}
				if it.Kind == 2 {
					msg.Payload = append([]byte(nil), ti.malformed...)
					if !useProto && rapid.Bool().Draw(t, "validDocumentPlusTrailingData") {
						// a complete valid document followed by something else is malformed as a whole
						msg.Payload = append(append([]byte(nil), pm.Payload...), []byte(rapid.SampledFrom([]string{"}", " x", "{}", "\x00", "null"}).Draw(t, "trailing"))...)
					}
				}
			case 3:
				msg = message.NewMessage("foreign", []byte("whatever"))
				if rapid.Bool().Draw(t, "foreignNameIsACaseVariantOfAKnownName") {
					// names are compared as they are: "e1" is not "E1"
					known := marshaler.Name(fam[hs[rapid.IntRange(0, len(hs)-1).Draw(t, "variantOf")].Type].zero())
					variant := strings.ToUpper(known)
					if variant == known {
						variant = strings.ToLower(known)
					}
					if variant != known {
						vv := fam[it.Type%len(fam)].gen(t)
						if vm, err := marshaler.Marshal(vv); err == nil {
							msg = vm
						}
						msg.Metadata["name"] = variant
					}
				}
				if rapid.Bool().Draw(t, "foreignHasOtherMeta") {
					msg.Metadata.Set("something", "else")
				}
			}
			// model
			var wantInvoked []int
			wantAck := true
			var candidates []int
			for i := range hs {
				switch kind {
				case "group":
					if fmt.Sprintf("g%d", groupOf[i]) == targets[it.Target] {
						candidates = append(candidates, i)
					}
				default:
					if fmt.Sprintf("h%d", i) == targets[it.Target] {
						candidates = append(candidates, i)
					}
				}
			}
			matched := false
			for _, i := range candidates {
				hname := marshaler.Name(fam[hs[i].Type].zero())
				if it.Kind == 3 || hname != msgName {
					continue
				}
				matched = true
				if it.Kind == 2 {
					wantAck = false // unmarshal error
					break
				}
				wantInvoked = append(wantInvoked, i)
				if it.Fail[i] {
					wantAck = kind == "command" && ackCmdErr
					break
				}
			}
			if !matched {
				switch kind {
				case "command":
					wantAck = true
				default:
					wantAck = ackUnknown
				}
			}
			if it.Kind != 0 || !wantAck || len(wantInvoked) != 1 {
				interesting = true
			}
			// deliver
			calls = nil
			hookCalls = 0
			failNow = it.Fail
			curEqual = nil
			if v != nil {
				sentV, sentTi := v, ti
				curEqual = func(received any) bool { return sentTi.equal(sentV, received) }
			}
			// a handler's failure is a failure whatever it wraps (a downstream call that was cancelled or timed out)
			curErr = rapid.SampledFrom([]error{errHandler, errHandler, fmt.Errorf("handler gave up: %w", context.Canceled), fmt.Errorf("downstream call: %w", context.DeadlineExceeded)}).Draw(t, "handlerError")
			relabelTo = ""
			if rapid.IntRange(0, 3).Draw(t, "handlersRelabelTheMessageTheyWereShown") == 0 {
				relabelTo = marshaler.Name(fam[(it.Type+1+rapid.IntRange(0, 1).Draw(t, "relabelTo"))%3].zero())
			}
			if rapid.IntRange(0, 2).Draw(t, "deliveredContextAlreadyCarriesAnotherOriginalMessage") == 0 {
				// a transport that keeps contexts (in-process relays): the delivered message's context went through another
				// handler before and still names THAT handler's message
				msg.SetContext(cqrs.CtxWithOriginalMessage(context.Background(), message.NewMessage("the-message-of-an-earlier-handler", nil)))
			}
			arrivedName = marshaler.NameFromMessage(msg)
			sub := subsByName[targets[it.Target]]
			if !sub.WaitSubs(1, lib.Live) {
				t.Fatalf("harness: no subscription for %s", targets[it.Target])
			}
			d, ok := sub.Subs()[0].Emit(msg, "", 0, lib.Live)
			if !ok {
				t.Fatalf("harness: router did not take the message")
			}
			acked, settled := d.Wait(2 * lib.Live)
			if !settled {
				t.Fatalf("violation: message never settled")
			}
			desc := fmt.Sprintf("%s processor, marshaler proto=%v names=%s, ackUnknown=%v ackCmdErr=%v, handlers(types)=%v groups=%v; item kind=%d type=%s target=%s failing=%v",
				kind, useProto, ngName, ackUnknown, ackCmdErr, hs, groupOf, it.Kind, ti.label, targets[it.Target], it.Fail)
			if len(calls) != len(wantInvoked) {
				t.Fatalf("violation: invoked handlers %v, model says %v\n%s", handlerIdx(calls), wantInvoked, desc)
			}
			for k, c := range calls {
				if c.handler != wantInvoked[k] {
					t.Fatalf("violation: invoked handlers %v, model says %v (order/selection)\n%s", handlerIdx(calls), wantInvoked, desc)
				}
				if !c.equalOK {
					t.Fatalf("violation: handler %d received %s, sent value is %v\n%s", c.handler, c.shown, v, desc)
				}
				if c.orig != msg {
					t.Fatalf("violation: OriginalMessageFromCtx is not the consumed message\n%s", desc)
				}
			}
			if acked != wantAck {
				t.Fatalf("violation: message acked=%v, model says %v\n%s", acked, wantAck, desc)
			}
			if useOnHandle && (hookCalls != len(wantInvoked) || len(hookProblems) > 0) {
				t.Fatalf("violation: OnHandle ran %d times for %d handler invocations; problems %v\n%s", hookCalls, len(wantInvoked), hookProblems, desc)
			}
			canon += fmt.Sprintf("%d.%d.%d.%v;", it.Kind, it.Type, it.Target, it.Fail)
		}
		// what the bus published stays what it was, however many values were sent afterwards
		for _, pc := range busPub.Calls() {
			for k, pm := range pc.Msgs {
				if now := lib.SnapOf(pm); !now.Equal(pc.Snaps[k]) {
					t.Fatalf("violation: the message the bus published in call %d was %+v when it was published and is %+v after later sends (proto=%v)", pc.N, pc.Snaps[k], now, useProto)
				}
			}
		}
		lib.Case(canon, interesting, "cqrs:"+kind, fmt.Sprintf("proto=%v", useProto))
		if interesting {
			lib.Sample(map[string]any{"test": "CQRSDispatch", "case": canon})
		}
	})
}

func handlerIdx(cs []invoked) []int {
	var out []int
	for _, c := range cs {
		out = append(out, c.handler)
	}
	return out
}

func genNameGen(t *rapid.T) (string, func(v interface{}) string) {
	switch rapid.IntRange(0, 2).Draw(t, "nameGen") {
	case 0:
		return "default", nil
	case 1:
		return "StructName", cqrs.StructName
	default:
		return "NamedStruct", cqrs.NamedStruct(cqrs.StructName)
	}
}
