package lib

import (
	"runtime"
	"sync"
	"sync/atomic"
	"time"

	"github.com/ThreeDotsLabs/watermill/internal/verifhook"
)

// Ctl is the controller behind verifhook.At: it can park the goroutine that reaches a point
// (forced interleavings) and inject yields/delays (schedule perturbation). No oracle depends
// on a hook being hit.
type Ctl struct {
	mu     sync.Mutex
	parks  []*Parked
	noise  []uint8
	hits   atomic.Int64
	counts map[string]int64
	done   bool
}

// Parked is a request to block the next goroutine reaching a point.
type Parked struct {
	point    string
	obj      any
	skip     int // let this many matching hits pass first
	reached  chan struct{}
	release  chan struct{}
	taken    bool
	relOnce  sync.Once
	maxBlock time.Duration
}

// Install makes c the process-wide hook handler.
func Install() *Ctl {
	c := &Ctl{counts: map[string]int64{}}
	verifhook.Set(c.handle)
	return c
}

// Uninstall releases everything parked and removes the handler.
func (c *Ctl) Uninstall() {
	c.mu.Lock()
	c.done = true
	parks := c.parks
	c.parks = nil
	c.mu.Unlock()
	for _, p := range parks {
		p.Release()
	}
	verifhook.Set(nil)
}

// Noise installs a perturbation plan: the i-th hook hit (globally) performs plan[i%len]:
// 0 nothing, 1..3 that many Gosched, 4.. a sleep of (v-3)*20µs.
func (c *Ctl) Noise(plan []uint8) {
	c.mu.Lock()
	c.noise = append([]uint8(nil), plan...)
	c.mu.Unlock()
}

// Park asks for the (skip+1)-th goroutine that reaches point with the given owner (nil =
// any owner) to block until Release is called (or maxBlock passed, as a safety net).
func (c *Ctl) Park(point string, obj any, skip int) *Parked {
	p := &Parked{point: point, obj: obj, skip: skip, reached: make(chan struct{}), release: make(chan struct{}), maxBlock: 30 * time.Second}
	c.mu.Lock()
	c.parks = append(c.parks, p)
	c.mu.Unlock()
	return p
}

// Reached is closed when a goroutine is blocked at the point.
func (p *Parked) Reached() <-chan struct{} { return p.reached }

// WaitReached waits until a goroutine parked (true) or the timeout passed (false).
func (p *Parked) WaitReached(d time.Duration) bool {
	select {
	case <-p.reached:
		return true
	case <-time.After(d):
		return false
	}
}

// Release lets the parked goroutine continue (and disarms the park if not yet reached).
func (p *Parked) Release() { p.relOnce.Do(func() { close(p.release) }) }

func sameObj(a, b any) (eq bool) {
	defer func() {
		if recover() != nil {
			eq = false
		}
	}()
	return a == b
}

// HitCount returns how often a point was hit since Install.
func (c *Ctl) HitCount(point string) int64 {
	c.mu.Lock()
	defer c.mu.Unlock()
	return c.counts[point]
}

func (c *Ctl) handle(point string, obj any) {
	n := c.hits.Add(1)
	c.mu.Lock()
	if c.done {
		c.mu.Unlock()
		return
	}
	c.counts[point]++
	var hit *Parked
	for _, p := range c.parks {
		if p.taken || p.point != point {
			continue
		}
		select {
		case <-p.release: // disarmed
			continue
		default:
		}
		if p.obj != nil && !sameObj(p.obj, obj) {
			continue
		}
		if p.skip > 0 {
			p.skip--
			continue
		}
		p.taken = true
		hit = p
		break
	}
	var act uint8
	if len(c.noise) > 0 {
		act = c.noise[int(n)%len(c.noise)]
	}
	c.mu.Unlock()
	if hit != nil {
		close(hit.reached)
		select {
		case <-hit.release:
		case <-time.After(hit.maxBlock):
		}
		return
	}
	switch {
	case act == 0:
	case act <= 3:
		for i := uint8(0); i < act; i++ {
			runtime.Gosched()
		}
	default:
		time.Sleep(time.Duration(act-3) * 20 * time.Microsecond)
	}
}
