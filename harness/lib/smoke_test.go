package lib

import (
	"testing"

	"github.com/ThreeDotsLabs/watermill/internal/verifhook"
	"github.com/ThreeDotsLabs/watermill/message"
	"github.com/anishathalye/porcupine"
	"pgregory.net/rapid"
)

func TestSmoke(t *testing.T) {
	verifhook.Set(nil)
	_ = porcupine.Ok
	rapid.Check(t, func(t *rapid.T) {
		m := message.NewMessage(rapid.String().Draw(t, "u"), nil)
		if !m.Equals(m.Copy()) {
			t.Fatal("x")
		}
	})
}
