package lib

import (
	"bytes"
	"fmt"
	"sort"
	"strings"
	"sync/atomic"

	"github.com/ThreeDotsLabs/watermill/message"
	"pgregory.net/rapid"
)

// Snap is a deep snapshot of the value part of a message.
type Snap struct {
	UUID    string            `json:"uuid"`
	Payload []byte            `json:"payload"`
	Meta    map[string]string `json:"meta"`
}

// SnapOf takes a deep snapshot.
func SnapOf(m *message.Message) Snap {
	s := Snap{UUID: m.UUID, Payload: append([]byte(nil), m.Payload...), Meta: map[string]string{}}
	for k, v := range m.Metadata {
		s.Meta[k] = v
	}
	return s
}

// Equal is the reference equality of the harness: same UUID, same payload bytes (nil and
// empty are the same value), same complete key/value set.
func (s Snap) Equal(o Snap) bool {
	if s.UUID != o.UUID || !bytes.Equal(s.Payload, o.Payload) || len(s.Meta) != len(o.Meta) {
		return false
	}
	for k, v := range s.Meta {
		ov, ok := o.Meta[k]
		if !ok || ov != v {
			return false
		}
	}
	return true
}

// EqualExceptMeta is Equal while ignoring the listed metadata keys on both sides.
func (s Snap) EqualExceptMeta(o Snap, ignore ...string) bool {
	a, b := s.clone(), o.clone()
	for _, k := range ignore {
		delete(a.Meta, k)
		delete(b.Meta, k)
	}
	return a.Equal(b)
}

func (s Snap) clone() Snap {
	c := Snap{UUID: s.UUID, Payload: append([]byte(nil), s.Payload...), Meta: map[string]string{}}
	for k, v := range s.Meta {
		c.Meta[k] = v
	}
	return c
}

// Canon returns a canonical string for hashing.
func (s Snap) Canon() string {
	keys := make([]string, 0, len(s.Meta))
	for k := range s.Meta {
		keys = append(keys, k)
	}
	sort.Strings(keys)
	var b strings.Builder
	fmt.Fprintf(&b, "%q|%x|", s.UUID, s.Payload)
	for _, k := range keys {
		fmt.Fprintf(&b, "%q=%q,", k, s.Meta[k])
	}
	return b.String()
}

// Msg builds a message from a snapshot.
func (s Snap) Msg() *message.Message {
	m := message.NewMessage(s.UUID, append([]byte(nil), s.Payload...))
	for k, v := range s.Meta {
		m.Metadata[k] = v // direct assignment: the harness must not depend on Metadata.Set
	}
	return m
}

// Settled reports the settlement state of a message without blocking.
// It must only be used on messages created by NewMessage/Copy (channels exist).
func Settled(m *message.Message) (acked, nacked bool) {
	select {
	case <-m.Acked():
		acked = true
	default:
	}
	select {
	case <-m.Nacked():
		nacked = true
	default:
	}
	return
}

// ---- generators ----

// GenUTF8 generates valid UTF-8 strings incl. empty, control and multi-byte characters.
func GenUTF8() *rapid.Generator[string] {
	return rapid.OneOf(
		rapid.Just(""),
		rapid.StringMatching(`[a-c]{1,3}`),
		rapid.StringN(0, 12, -1),
		rapid.SampledFrom([]string{"\x00", "\n", "\t", "\u00e9", "\u65e5\u672c", "\U0001F600", " ", "\"", "\\", "a\x00b", "\u00a0", "\ufeff", "<>&", "\u2028"}),
	)
}

// GenKey generates metadata keys from a small colliding alphabet plus arbitrary ones.
func GenKey() *rapid.Generator[string] {
	return rapid.OneOf(
		rapid.SampledFrom([]string{"a", "b", "c", "", "k", "é"}),
		GenUTF8(),
	)
}

// GenPayload generates nil / empty / arbitrary payloads.
func GenPayload() *rapid.Generator[[]byte] {
	return rapid.OneOf(
		rapid.Just([]byte(nil)),
		rapid.Just([]byte{}),
		rapid.SliceOfN(rapid.Byte(), 0, 40),
		rapid.Map(rapid.StringN(0, 20, -1), func(s string) []byte { return []byte(s) }),
		// payloads that are documents in the very formats the components speak themselves: JSON in every spelling
		// (spaced, pretty-printed, with characters encoders like to escape), things that look like a forwarder
		// envelope, a request-reply result, a protobuf body. A payload is opaque bytes to every component.
		rapid.Map(rapid.SampledFrom(documentPayloads), func(s string) []byte { return []byte(s) }),
	)
}

var documentPayloads = []string{
	`{"id": 1}`, "{\n  \"id\": 1,\n  \"tags\": [ \"a\", \"b\" ]\n}\n", ` 42`, "[1,2,3]\n", `{"html":"<b>&amp;</b> > <"}`, "{\"sep\":\"\u2028\u2029\"}", `"just a string"`, `null`, `{}`, `{"a":1}{"b":2}`,
	`{"destination_topic":"elsewhere","amount":3}`,
	`{"destination_topic":"elsewhere","uuid":"inner-uuid","payload":"aW5uZXI=","metadata":{"inner":"meta"}}`,
	`{"destination_topic":"","uuid":"u","payload":"cA=="}`, `{"uuid":"u","payload":"cA==","metadata":null}`,
	`{"CmdID":"x","Attempt":1}`, "\x08\x96\x01\x12\x03abc", "\xff\xfe\xfd", "100% %s %d %!", "line one\nline two\r\n", "\x00",
}

// GenSnap generates arbitrary message values.
func GenSnap() *rapid.Generator[Snap] {
	return rapid.Custom(func(t *rapid.T) Snap {
		s := Snap{
			UUID:    GenUTF8().Draw(t, "uuid"),
			Payload: GenPayload().Draw(t, "payload"),
			Meta:    map[string]string{},
		}
		n := rapid.IntRange(0, 4).Draw(t, "nmeta")
		for i := 0; i < n; i++ {
			s.Meta[GenKey().Draw(t, "k")] = GenUTF8().Draw(t, "v")
		}
		return s
	})
}

var tagCounter atomic.Int64

// NextTag returns a process-unique small id used to link harness-side records.
func NextTag() int64 { return tagCounter.Add(1) }
