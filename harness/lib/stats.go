// Package lib is the shared machinery of the watermill verification harness:
// evidence statistics, scripted Pub/Subs, history clock, hook controller and generators.
package lib

import (
	"encoding/json"
	"fmt"
	"hash/fnv"
	"os"
	"sort"
	"sync"
	"sync/atomic"
	"testing"
	"time"
)

// Stats collects what a run actually covered. It is written by lib.Main to the file named
// by $VERIF_STATS_OUT and merged over shards by the driver into /verif/evidence/<id>.json.
type statsT struct {
	mu          sync.Mutex
	evaluations int64
	nontrivial  map[uint64]struct{}
	classes     map[string]int64
	samples     []any
	sampleSeen  int64
	extra       map[string]any
	counters    map[string]int64
	exhaustive  map[string]bool
	known       []string
}

var stats = &statsT{
	nontrivial: map[uint64]struct{}{},
	classes:    map[string]int64{},
	extra:      map[string]any{},
	counters:   map[string]int64{},
	exhaustive: map[string]bool{},
}

const maxSamples = 12

func hash64(s string) uint64 {
	h := fnv.New64a()
	h.Write([]byte(s))
	return h.Sum64()
}

// Case records one executed case. canon is a canonical encoding of the case (used only for
// distinctness of non-trivial cases); classes are generator-health labels.
func Case(canon string, nontrivial bool, classes ...string) {
	stats.mu.Lock()
	defer stats.mu.Unlock()
	stats.evaluations++
	if nontrivial {
		stats.nontrivial[hash64(canon)] = struct{}{}
	}
	for _, c := range classes {
		stats.classes[c]++
	}
}

// Sample offers a written-out case as a sample for the evidence file. The first few are
// always kept, later ones replace pseudo-randomly (deterministically in the offer count).
func Sample(v any) {
	stats.mu.Lock()
	defer stats.mu.Unlock()
	stats.sampleSeen++
	if len(stats.samples) < maxSamples {
		stats.samples = append(stats.samples, v)
		return
	}
	// deterministic reservoir-ish replacement of the second half
	n := stats.sampleSeen
	if n&(n-1) == 0 { // powers of two
		idx := maxSamples/2 + int((n>>3)%int64(maxSamples/2))
		stats.samples[idx] = v
	}
}

// Count adds to a named counter that ends up in coverage.counters.
func Count(name string, d int64) {
	stats.mu.Lock()
	stats.counters[name] += d
	stats.mu.Unlock()
}

// Extra sets a named extra value in the coverage object.
func Extra(name string, v any) {
	stats.mu.Lock()
	stats.extra[name] = v
	stats.mu.Unlock()
}

// Exhaustive records that a finite sub-space was enumerated completely.
func Exhaustive(space string, complete bool) {
	stats.mu.Lock()
	stats.exhaustive[space] = complete
	stats.mu.Unlock()
}

// KnownFinding records that a listed known finding was reproduced by this run.
func KnownFinding(line string) {
	stats.mu.Lock()
	stats.known = append(stats.known, line)
	stats.mu.Unlock()
	fmt.Printf("KNOWN-FINDING: %s\n", line)
}

type statsFile struct {
	Evaluations int64            `json:"evaluations"`
	Nontrivial  []uint64         `json:"nontrivial_hashes"`
	Classes     map[string]int64 `json:"classes"`
	Samples     []any            `json:"samples"`
	Extra       map[string]any   `json:"extra"`
	Counters    map[string]int64 `json:"counters"`
	Exhaustive  map[string]bool  `json:"exhaustive"`
	Known       []string         `json:"known_findings"`
	Violations  int64            `json:"violations"`
}

var violations atomic.Int64

func flushStats() {
	out := os.Getenv("VERIF_STATS_OUT")
	if out == "" {
		return
	}
	stats.mu.Lock()
	defer stats.mu.Unlock()
	f := statsFile{
		Evaluations: stats.evaluations,
		Classes:     stats.classes,
		Samples:     stats.samples,
		Extra:       stats.extra,
		Counters:    stats.counters,
		Exhaustive:  stats.exhaustive,
		Known:       stats.known,
		Violations:  violations.Load(),
	}
	for h := range stats.nontrivial {
		f.Nontrivial = append(f.Nontrivial, h)
	}
	sort.Slice(f.Nontrivial, func(i, j int) bool { return f.Nontrivial[i] < f.Nontrivial[j] })
	b, err := json.Marshal(f)
	if err != nil {
		fmt.Fprintf(os.Stderr, "verif: cannot marshal stats: %v\n", err)
		return
	}
	tmp := out + ".tmp"
	if err := os.WriteFile(tmp, b, 0o644); err != nil {
		fmt.Fprintf(os.Stderr, "verif: cannot write stats: %v\n", err)
		return
	}
	os.Rename(tmp, out)
}

// Main is the TestMain body of every property package.
func Main(m *testing.M) {
	code := m.Run()
	flushStats()
	os.Exit(code)
}

// Tier returns "quick" or "thorough".
func Tier() string {
	if os.Getenv("VERIF_TIER") == "thorough" {
		return "thorough"
	}
	return "quick"
}

// Thorough reports whether the thorough tier is running.
func Thorough() bool { return Tier() == "thorough" }

// Pick returns q in the quick tier and th in the thorough tier.
func Pick(q, th int) int {
	if Thorough() {
		return th
	}
	return q
}

// Violation writes a replay file for a non-rapid (enumerated / forced-schedule) failure and
// fails the test. caseID is what $VERIF_ONLY_CASE must be set to in order to re-run it.
func Violation(t testing.TB, test, caseID string, details any) {
	t.Helper()
	violations.Add(1)
	dir := os.Getenv("VERIF_REPLAY_DIR")
	if dir != "" {
		os.MkdirAll(dir, 0o755)
		b, _ := json.MarshalIndent(map[string]any{
			"test":      test,
			"only_case": caseID,
			"details":   details,
			"time":      time.Now().Format(time.RFC3339),
		}, "", " ")
		name := fmt.Sprintf("%s/%s-%x.json", dir, test, hash64(caseID))
		os.WriteFile(name, b, 0o644)
		fmt.Printf("VERIF-REPLAY-FILE: %s\n", name)
	}
	b, _ := json.Marshal(details)
	t.Errorf("violation in %s case %s: %s", test, caseID, string(b))
}

// OnlyCase returns the case id to re-run in replay mode ("" = all).
func OnlyCase() string { return os.Getenv("VERIF_ONLY_CASE") }

// Seed returns VERIF_SEED (default 1) for the few places that need a number outside rapid
// (selection of a slice of an enumeration table); never 0.
func Seed() uint64 {
	var s uint64
	fmt.Sscanf(os.Getenv("VERIF_SEED"), "%d", &s)
	if s == 0 {
		s = 1
	}
	return s
}

// WriteReplay stores a replay file for a (schedule-dependent) failure found inside a rapid
// property and announces it to the driver. The caller fails the test afterwards.
func WriteReplay(test, name string, details any) string {
	violations.Add(1)
	dir := os.Getenv("VERIF_REPLAY_DIR")
	if dir == "" {
		return ""
	}
	os.MkdirAll(dir, 0o755)
	path := fmt.Sprintf("%s/%s-%x.json", dir, name, hash64(fmt.Sprint(details))+uint64(time.Now().UnixNano()))
	b, _ := json.MarshalIndent(map[string]any{"test": test, "only_case": path, "details": details}, "", " ")
	if err := os.WriteFile(path, b, 0o644); err != nil {
		return ""
	}
	fmt.Printf("VERIF-REPLAY-FILE: %s\n", path)
	return path
}
