package lib

import (
	"context"
	"errors"
	"runtime"
	"strings"
	"sync"
	"sync/atomic"
	"time"

	"github.com/ThreeDotsLabs/watermill/message"
)

// ---- logical clock ----

var clock atomic.Int64

// Tick returns the next logical time stamp (strictly increasing over the process).
func Tick() int64 { return clock.Add(1) }

// Now returns the current logical time without advancing it.
func Now() int64 { return clock.Load() }

// ---- scripted subscriber ----

// Delivery is one message emitted by a ScriptSub subscription together with its observed
// settlement (first of Ack/Nack as seen on the message's channels).
type Delivery struct {
	Msg      *message.Message
	Tag      string // harness-side id of the logical message
	Attempt  int    // 0 = first delivery, n = n-th redelivery
	EmitT    int64
	Received bool // handed over to the reader of the channel
}

// Wait blocks until the delivery is settled or the timeout passes.
// ok=false means still unsettled at the timeout.
func (d *Delivery) Wait(timeout time.Duration) (acked bool, ok bool) {
	tm := time.NewTimer(timeout)
	defer tm.Stop()
	select {
	case <-d.Msg.Acked():
		return true, true
	case <-d.Msg.Nacked():
		return false, true
	case <-tm.C:
		return false, false
	}
}

// State reports the current settlement without blocking.
func (d *Delivery) State() (acked, nacked bool) { return Settled(d.Msg) }

// Subscription is one Subscribe call made on a ScriptSub.
type Subscription struct {
	N     int // call number on this ScriptSub (0-based)
	Ctx   context.Context
	Topic string

	ch        chan *message.Message
	closing   chan struct{}
	mu        sync.RWMutex // emitters hold R, close holds W
	closed    bool
	closeOnce sync.Once
	ClosedT   atomic.Int64
}

// Closed reports whether the subscription's channel has been closed.
func (s *Subscription) Closed() bool {
	select {
	case <-s.closing:
		return true
	default:
		return false
	}
}

// End closes the subscription's channel from the subscriber's side (connection lost, topic deleted, ...).
func (s *Subscription) End() { s.close() }

func (s *Subscription) close() {
	s.closeOnce.Do(func() {
		close(s.closing)
		s.mu.Lock()
		s.closed = true
		close(s.ch)
		s.ClosedT.Store(Tick())
		s.mu.Unlock()
	})
}

// Emit offers msg on the subscription's channel and blocks until a reader took it, the
// subscription was closed, or the timeout passed. It returns the delivery record and
// whether the message was handed over.
func (s *Subscription) Emit(msg *message.Message, tag string, attempt int, timeout time.Duration) (*Delivery, bool) {
	d := &Delivery{Msg: msg, Tag: tag, Attempt: attempt}
	s.mu.RLock()
	defer s.mu.RUnlock()
	if s.closed {
		return d, false
	}
	tm := time.NewTimer(timeout)
	defer tm.Stop()
	d.EmitT = Tick()
	select {
	case s.ch <- msg:
		d.Received = true
		return d, true
	case <-s.closing:
		return d, false
	case <-tm.C:
		return d, false
	}
}

// ScriptSub is a message.Subscriber whose behaviour is owned by the harness.
type ScriptSub struct {
	Name string // returned by String() when non-empty

	mu         sync.Mutex
	subs       []*Subscription
	closeCalls int
	closedT    int64
	closed     bool
	newSub     chan struct{}

	// SubscribeErr, when set, makes the n-th Subscribe call fail with the returned error.
	SubscribeErr func(n int, topic string) error
	// OnClose, when set, is called inside every Close() call before the channels are closed
	// (used for "message already on its way when Close was called").
	OnClose func(call int)
	// IgnoreCtx makes subscriptions not close their channel when their ctx is cancelled.
	IgnoreCtx bool
	// Buffer is the capacity of the subscription channels.
	Buffer int
	// Prefill, when set, returns messages that are already waiting in the n-th subscription's (buffered) channel when
	// Subscribe returns: a subscriber with a backlog.
	Prefill func(n int) []*message.Message
	// CloseErr, when set, decides what the n-th Close call (1-based) returns.
	CloseErr func(call int) error
}

// NewScriptSub creates a scripted subscriber.
func NewScriptSub(name string) *ScriptSub {
	return &ScriptSub{Name: name, newSub: make(chan struct{}, 1024)}
}

func (s *ScriptSub) String() string {
	if s.Name != "" {
		return s.Name
	}
	return "lib.ScriptSub"
}

// Subscribe implements message.Subscriber.
func (s *ScriptSub) Subscribe(ctx context.Context, topic string) (<-chan *message.Message, error) {
	s.mu.Lock()
	n := len(s.subs)
	if s.closed {
		s.mu.Unlock()
		return nil, errors.New("scriptsub closed")
	}
	if s.SubscribeErr != nil {
		if err := s.SubscribeErr(n, topic); err != nil {
			s.mu.Unlock()
			return nil, err
		}
	}
	sub := &Subscription{
		N: n, Ctx: ctx, Topic: topic,
		ch:      make(chan *message.Message, s.Buffer),
		closing: make(chan struct{}),
	}
	if s.Prefill != nil {
		// a backlog: these messages are in the channel before Subscribe returns (as many as the buffer holds)
		for _, m := range s.Prefill(n) {
			select {
			case sub.ch <- m:
			default:
			}
		}
	}
	s.subs = append(s.subs, sub)
	s.mu.Unlock()
	Tick()
	if !s.IgnoreCtx {
		go func() {
			select {
			case <-ctx.Done():
				sub.close()
			case <-sub.closing:
			}
		}()
	}
	select {
	case s.newSub <- struct{}{}:
	default:
	}
	return sub.ch, nil
}

// Close implements message.Subscriber. Idempotent.
func (s *ScriptSub) Close() error {
	s.mu.Lock()
	s.closeCalls++
	call := s.closeCalls
	onClose := s.OnClose
	s.mu.Unlock()
	if onClose != nil {
		onClose(call)
	}
	s.mu.Lock()
	if !s.closed {
		s.closed = true
		s.closedT = Tick()
	}
	subs := append([]*Subscription(nil), s.subs...)
	s.mu.Unlock()
	for _, sub := range subs {
		sub.close()
	}
	if s.CloseErr != nil {
		return s.CloseErr(call)
	}
	return nil
}

// CloseCalls returns how often Close was called.
func (s *ScriptSub) CloseCalls() int {
	s.mu.Lock()
	defer s.mu.Unlock()
	return s.closeCalls
}

// ClosedAt returns the logical time of the first Close (0 if none).
func (s *ScriptSub) ClosedAt() int64 {
	s.mu.Lock()
	defer s.mu.Unlock()
	return s.closedT
}

// Subs returns the subscriptions made so far.
func (s *ScriptSub) Subs() []*Subscription {
	s.mu.Lock()
	defer s.mu.Unlock()
	return append([]*Subscription(nil), s.subs...)
}

// WaitSubs blocks until at least n Subscribe calls were made (or the timeout passes).
func (s *ScriptSub) WaitSubs(n int, timeout time.Duration) bool {
	deadline := time.Now().Add(timeout)
	for {
		if len(s.Subs()) >= n {
			return true
		}
		left := time.Until(deadline)
		if left <= 0 {
			return false
		}
		select {
		case <-s.newSub:
		case <-time.After(minDur(left, 5*time.Millisecond)):
		}
	}
}

func minDur(a, b time.Duration) time.Duration {
	if a < b {
		return a
	}
	return b
}

// ---- scripted publisher ----

// PubCall is one Publish call observed by a ScriptPub.
type PubCall struct {
	N      int
	Topic  string
	Msgs   []*message.Message
	Snaps  []Snap
	StartT int64
	EndT   int64
	Err    error
	Panic  any
	// Ctx holds the contexts of the messages at call time.
	Ctxs []context.Context
	// Aux is filled by the OnPublish callback (e.g. settlement state sampled inside the call).
	Aux any
}

// ScriptPub is a message.Publisher whose outcomes are owned by the harness.
type ScriptPub struct {
	Name string

	mu         sync.Mutex
	calls      []*PubCall
	closeCalls int
	closedT    int64

	// OnPublish is called inside Publish with the call record (Msgs, Snaps filled); it
	// decides the outcome: return an error to fail, panic to panic.
	OnPublish func(c *PubCall) error
	// CloseErr is returned by Close.
	CloseErr error
}

// NewScriptPub creates a scripted publisher.
func NewScriptPub(name string) *ScriptPub { return &ScriptPub{Name: name} }

func (p *ScriptPub) String() string {
	if p.Name != "" {
		return p.Name
	}
	return "lib.ScriptPub"
}

// Publish implements message.Publisher.
func (p *ScriptPub) Publish(topic string, msgs ...*message.Message) (err error) {
	c := &PubCall{Topic: topic, Msgs: append([]*message.Message(nil), msgs...), StartT: Tick()}
	for _, m := range msgs {
		c.Snaps = append(c.Snaps, SnapOf(m))
		c.Ctxs = append(c.Ctxs, m.Context())
	}
	p.mu.Lock()
	c.N = len(p.calls)
	p.calls = append(p.calls, c)
	on := p.OnPublish
	p.mu.Unlock()
	defer func() {
		if r := recover(); r != nil {
			p.mu.Lock()
			c.Panic = r
			c.EndT = Tick()
			p.mu.Unlock()
			panic(r)
		}
	}()
	if on != nil {
		err = on(c)
	}
	p.mu.Lock()
	c.Err = err
	c.EndT = Tick()
	p.mu.Unlock()
	return err
}

// Close implements message.Publisher.
func (p *ScriptPub) Close() error {
	p.mu.Lock()
	defer p.mu.Unlock()
	p.closeCalls++
	if p.closedT == 0 {
		p.closedT = Tick()
	}
	return p.CloseErr
}

// Calls returns a copy of the call log.
func (p *ScriptPub) Calls() []*PubCall {
	p.mu.Lock()
	defer p.mu.Unlock()
	out := make([]*PubCall, len(p.calls))
	for i, c := range p.calls {
		cc := *c
		out[i] = &cc
	}
	return out
}

// CloseCalls returns how often Close was called.
func (p *ScriptPub) CloseCalls() int {
	p.mu.Lock()
	defer p.mu.Unlock()
	return p.closeCalls
}

// ClosedAt returns the logical time of the first Close (0 if none).
func (p *ScriptPub) ClosedAt() int64 {
	p.mu.Lock()
	defer p.mu.Unlock()
	return p.closedT
}

// ---- helpers ----

// WaitUntil polls cond until it is true or the timeout passes.
func WaitUntil(timeout time.Duration, cond func() bool) bool {
	deadline := time.Now().Add(timeout)
	d := 50 * time.Microsecond
	for {
		if cond() {
			return true
		}
		if time.Now().After(deadline) {
			return cond()
		}
		time.Sleep(d)
		if d < 2*time.Millisecond {
			d *= 2
		}
	}
}

// Live is the liveness bound: far above normal latency (µs–ms).
const Live = 10 * time.Second

// PubSubGoroutines counts goroutines that have GoChannel or subscriber-decorator frames.
func PubSubGoroutines() (int, string) {
	buf := make([]byte, 8<<20)
	buf = buf[:runtime.Stack(buf, true)]
	n := 0
	var sample string
	for _, g := range strings.Split(string(buf), "\n\n") {
		if (strings.Contains(g, "pubsub/gochannel.") || strings.Contains(g, "messageTransformSubscriberDecorator")) && !strings.Contains(g, "lib.PubSubGoroutines") {
			n++
			if sample == "" {
				sample = g
			}
		}
	}
	return n, sample
}
