// C02 — Router settles each message once: Ack iff handled and outputs published.
package c02

import (
	"context"
	"errors"
	"fmt"
	"runtime"
	"strings"
	"sync"
	"testing"
	"time"

	"github.com/ThreeDotsLabs/watermill"
	"github.com/ThreeDotsLabs/watermill/message"
	"github.com/ThreeDotsLabs/watermill/verifharness/lib"
	"pgregory.net/rapid"
)

func TestMain(m *testing.M) {
	lib.Extra("rule", "rapid-generated router cases: handler kind {with publisher, no-publisher}, middleware prefix (identity / output-appending, router- or handler-level), "+
		"1..6 messages emitted without waiting for settlements (optionally all held in their handlers at once), per message a behaviour {0..3 outputs fresh or the consumed object itself, "+
		"error with/without outputs, panic string|error|nil, Ack/Nack inside then succeed|fail|panic} and a publisher outcome {accept,error,panic}; schedule noise at the router hook points. "+
		"Oracle = model of the expected settlement and Publish calls. Non-trivial: at least one non-success behaviour, or >=2 messages in flight at once. Distinct by canonical case encoding.")
	lib.Extra("assumptions", []string{
		"scripted subscriber/publisher observe every Ack, Nack and Publish argument; settlement state of the consumed message is sampled inside Publish (start and end of the call)",
		"liveness bound 20 s for a message to be settled (normal latency: microseconds)",
		"nothing is demanded about log output; panic(nil) only has to end in Nack",
	})
	lib.Main(m)
}

type behav struct {
	Outputs int  // number of fresh outputs
	Shared  bool // additionally return the consumed message object itself as first output
	Err     int  // 0 none, 1 plain error, 2 context.Canceled
	Panic   int  // 0 none, 1 string, 2 error, 3 nil
	Self    int  // 0 none, 1 Ack inside, 2 Nack inside
	Pub     int  // 0 accept, 1 error, 2 panic, 3 error wrapping context.Canceled, 4 error wrapping context.DeadlineExceeded
	Pad     int
	Ctx     int // message context: 0 none (background), 1 live cancelable, 2 cancelled before delivery, 3 cancelled by the handler
}

func (b behav) String() string {
	return fmt.Sprintf("out=%d shared=%v err=%d panic=%d self=%d pub=%d pad=%d ctx=%d", b.Outputs, b.Shared, b.Err, b.Panic, b.Self, b.Pub, b.Pad, b.Ctx)
}

type caseT struct {
	NoPublisher  bool
	NilPublisher bool  // AddHandler(..., publisher = nil, ...): outputs cannot be published either
	CancelMid    int   // cancel the Run context after this many messages were emitted (-1 = never); the subscriber keeps delivering
	Middlewares  []int // 0 identity, 1 append-output, 2 identity that turns "no outputs" into an empty non-nil slice (filtering middlewares do); registration order
	HandlerLvl   []bool
	Barrier      bool
	Msgs         []behav
	Noise        []uint8
	Procs        int
}

func genCase(t *rapid.T) caseT {
	c := caseT{
		NoPublisher: rapid.IntRange(0, 3).Draw(t, "noPublisher") == 0,
		Barrier:     rapid.Bool().Draw(t, "holdAllInHandlers"),
		Procs:       rapid.SampledFrom([]int{1, 2, 4, 16}).Draw(t, "gomaxprocs"),
	}
	c.CancelMid = -1
	if !c.NoPublisher && rapid.IntRange(0, 5).Draw(t, "nilPublisher") == 0 {
		c.NilPublisher = true
	}
	nm := rapid.IntRange(0, 2).Draw(t, "nMiddlewares")
	for i := 0; i < nm; i++ {
		c.Middlewares = append(c.Middlewares, rapid.SampledFrom([]int{0, 1, 1, 2}).Draw(t, "mwKind"))
		c.HandlerLvl = append(c.HandlerLvl, rapid.Bool().Draw(t, "mwHandlerLevel"))
	}
	n := rapid.IntRange(1, 6).Draw(t, "nMessages")
	for i := 0; i < n; i++ {
		b := behav{Pad: rapid.IntRange(0, 3).Draw(t, "pad")}
		if !c.NoPublisher {
			b.Outputs = rapid.IntRange(0, 3).Draw(t, "outputs")
			b.Shared = rapid.IntRange(0, 4).Draw(t, "sharedObj") == 0
		}
		switch rapid.IntRange(0, 5).Draw(t, "outcome") {
		case 0, 1, 2: // success
		case 3:
			b.Err = rapid.IntRange(1, 2).Draw(t, "errKind")
		case 4:
			b.Panic = rapid.IntRange(1, 3).Draw(t, "panicKind")
		case 5:
			b.Err = 1
			b.Outputs = 0 // error without outputs
		}
		if rapid.IntRange(0, 3).Draw(t, "selfSettle") == 0 {
			b.Self = rapid.IntRange(1, 2).Draw(t, "selfKind")
		}
		b.Pub = rapid.SampledFrom([]int{0, 0, 0, 0, 1, 2, 3, 4}).Draw(t, "pubOutcome")
		b.Ctx = rapid.SampledFrom([]int{0, 1, 1, 2, 3}).Draw(t, "msgCtx")
		c.Msgs = append(c.Msgs, b)
	}
	c.Noise = rapid.SliceOfN(rapid.Uint8Range(0, 6), 0, 12).Draw(t, "noise")
	if rapid.IntRange(0, 4).Draw(t, "cancelRunContextDuringTraffic") == 0 {
		c.CancelMid = rapid.IntRange(0, n-1).Draw(t, "cancelAfterMessages")
		c.Barrier = false
	}
	return c
}

func (c caseT) canon() string {
	var b strings.Builder
	fmt.Fprintf(&b, "np=%v nil=%v cancel=%d mw=%v hl=%v bar=%v|", c.NoPublisher, c.NilPublisher, c.CancelMid, c.Middlewares, c.HandlerLvl, c.Barrier)
	for _, m := range c.Msgs {
		fmt.Fprintf(&b, "%d%v%d%d%d%d%d;", m.Outputs, m.Shared, m.Err, m.Panic, m.Self, m.Pub, m.Ctx)
	}
	return b.String()
}

type pubObs struct {
	startAcked, startNacked, endAcked, endNacked bool
}

type msgRec struct {
	handlerCalls int
	returned     []*message.Message // what the outermost middleware saw returned (pointers)
	returnedErr  error
	sawReturn    bool
}

var errHandler = errors.New("scripted handler error")
var errPub = errors.New("scripted publish error")

func pad(n int) {
	for i := 0; i < n; i++ {
		runtime.Gosched()
	}
	if n >= 3 {
		time.Sleep(30 * time.Microsecond)
	}
}

func runCase(t *rapid.T, c caseT) {
	defer runtime.GOMAXPROCS(runtime.GOMAXPROCS(0))
	runtime.GOMAXPROCS(c.Procs)
	ctl := lib.Install()
	defer ctl.Uninstall()
	ctl.Noise(c.Noise)

	sub := lib.NewScriptSub("")
	pub := lib.NewScriptPub("")
	router, err := message.NewRouter(message.RouterConfig{CloseTimeout: 5 * time.Second}, watermill.NopLogger{})
	if err != nil {
		t.Fatalf("NewRouter: %v", err)
	}

	var mu sync.Mutex
	recs := map[string]*msgRec{}
	deliveries := map[string]*lib.Delivery{}
	cancels := map[string]context.CancelFunc{}
	rec := func(tag string) *msgRec {
		r := recs[tag]
		if r == nil {
			r = &msgRec{}
			recs[tag] = r
		}
		return r
	}
	behavOf := func(tag string) behav {
		var i int
		fmt.Sscanf(tag, "m%d", &i)
		return c.Msgs[i]
	}
	started := make(chan struct{}, len(c.Msgs))
	release := make(chan struct{})
	releaseOf := map[string]chan struct{}{} // per message: lets the harness finish one invocation while the others are held

	// outermost recorder: registered first at router level => outermost
	router.AddMiddleware(func(h message.HandlerFunc) message.HandlerFunc {
		return func(msg *message.Message) (out []*message.Message, err error) {
			tag := msg.Metadata.Get("tag")
			out, err = h(msg)
			mu.Lock()
			r := rec(tag)
			r.returned, r.returnedErr, r.sawReturn = append([]*message.Message(nil), out...), err, true
			mu.Unlock()
			return out, err
		}
	})

	core := func(msg *message.Message) ([]*message.Message, error) {
		tag := msg.Metadata.Get("tag")
		b := behavOf(tag)
		mu.Lock()
		rec(tag).handlerCalls++
		mu.Unlock()
		if c.Barrier {
			started <- struct{}{}
			mu.Lock()
			own := releaseOf[tag]
			mu.Unlock()
			select {
			case <-release:
			case <-own:
			case <-time.After(4 * lib.Live): // safety net only: far beyond every bound the harness waits for while it holds handlers
			}
		}
		pad(b.Pad)
		if b.Ctx == 3 {
			mu.Lock()
			cancel := cancels[tag]
			mu.Unlock()
			if cancel != nil {
				cancel()
			}
		}
		switch b.Self {
		case 1:
			msg.Ack()
		case 2:
			msg.Nack()
		}
		var outs []*message.Message
		if b.Shared {
			msg.Metadata.Set("src", tag)
			outs = append(outs, msg)
		}
		for i := 0; i < b.Outputs; i++ {
			uuid := fmt.Sprintf("%s-out%d", tag, i)
			if b.Pad == 2 {
				uuid = "" // UUIDs are optional and need not be unique: every output of this message has the empty one
			} else if b.Pad == 3 {
				uuid = tag // ... or they all share their parent's
			}
			o := message.NewMessage(uuid, []byte(fmt.Sprintf("%s#%d", tag, i)))
			o.Metadata.Set("src", tag)
			outs = append(outs, o)
		}
		if len(outs) == 0 && b.Pad%2 == 1 {
			outs = message.Messages{} // "nothing" as an empty slice rather than nil
		}
		switch b.Panic {
		case 1:
			panic("scripted panic " + tag)
		case 2:
			panic(errors.New("scripted panic error " + tag))
		case 3:
			panic(nil)
		}
		switch b.Err {
		case 1:
			return outs, errHandler
		case 2:
			return outs, fmt.Errorf("wrapped: %w", context.Canceled)
		}
		return outs, nil
	}

	var h *message.Handler
	if c.NoPublisher {
		h = router.AddNoPublisherHandler("h", "in", sub, func(msg *message.Message) error {
			_, err := core(msg)
			return err
		})
	} else if c.NilPublisher {
		h = router.AddHandler("h", "in", sub, "out", nil, core)
	} else {
		h = router.AddHandler("h", "in", sub, "out", pub, core)
	}
	appended := 0
	for i, k := range c.Middlewares {
		var mw message.HandlerMiddleware
		if k == 0 {
			mw = func(h message.HandlerFunc) message.HandlerFunc {
				return func(msg *message.Message) ([]*message.Message, error) { return h(msg) }
			}
		} else if k == 2 {
			mw = func(h message.HandlerFunc) message.HandlerFunc {
				return func(msg *message.Message) ([]*message.Message, error) {
					out, err := h(msg)
					if len(out) == 0 {
						out = make([]*message.Message, 0, 2) // nothing produced, said with an empty slice instead of nil
					}
					return out, err
				}
			}
		} else {
			appended++
			idx := i
			mw = func(h message.HandlerFunc) message.HandlerFunc {
				return func(msg *message.Message) ([]*message.Message, error) {
					out, err := h(msg)
					if err == nil {
						o := message.NewMessage(fmt.Sprintf("%s-mw%d", msg.Metadata.Get("tag"), idx), nil)
						o.Metadata.Set("src", msg.Metadata.Get("tag"))
						out = append(out, o)
					}
					return out, err
				}
			}
		}
		if c.HandlerLvl[i] {
			h.AddMiddleware(mw)
		} else {
			router.AddMiddleware(mw)
		}
	}

	pubObsBy := map[string][]pubObs{}
	pub.OnPublish = func(pc *lib.PubCall) error {
		src := ""
		if len(pc.Msgs) > 0 {
			src = pc.Msgs[0].Metadata.Get("src")
		}
		mu.Lock()
		d := deliveries[src]
		mu.Unlock()
		var o pubObs
		if d != nil {
			o.startAcked, o.startNacked = d.State()
		}
		pad(2)
		if d != nil {
			o.endAcked, o.endNacked = d.State()
		}
		mu.Lock()
		pubObsBy[src] = append(pubObsBy[src], o)
		mu.Unlock()
		if src == "" {
			return nil
		}
		switch behavOf(src).Pub {
		case 1:
			return errPub
		case 2:
			panic("scripted publisher panic")
		case 3: // a publisher bound to a context of its own: still a failed publish, whatever the error wraps
			return fmt.Errorf("scripted publish error: %w", context.Canceled)
		case 4:
			return fmt.Errorf("scripted publish error: %w", context.DeadlineExceeded)
		}
		return nil
	}

	runCtx, cancelRun := context.WithCancel(context.Background())
	defer cancelRun()
	if c.CancelMid >= 0 {
		// messages that are already on their way keep arriving after the cancellation
		sub.IgnoreCtx = true
		defer sub.Close()
	}
	runErr := make(chan error, 1)
	go func() { runErr <- router.Run(runCtx) }()
	select {
	case <-router.Running():
	case <-time.After(lib.Live):
		t.Fatalf("harness: router did not start")
	}
	if !sub.WaitSubs(1, lib.Live) {
		t.Fatalf("harness: router did not subscribe")
	}
	s := sub.Subs()[0]

	// emit without waiting for settlements
	var ds []*lib.Delivery
	for i := range c.Msgs {
		if i == c.CancelMid {
			cancelRun()
		}
		tag := fmt.Sprintf("m%d", i)
		// UUIDs are the producers' business: several messages in flight may share one, or have none
		uuid := "uuid-" + tag
		switch (i + len(c.Msgs)) % 4 {
		case 1:
			uuid = ""
		case 2, 3:
			uuid = "same-uuid"
		}
		m := message.NewMessage(uuid, []byte("payload-"+tag))
		m.Metadata.Set("tag", tag)
		d := &lib.Delivery{Msg: m, Tag: tag}
		var cancel context.CancelFunc
		if k := c.Msgs[i].Ctx; k != 0 {
			var mctx context.Context
			mctx, cancel = context.WithCancel(context.Background())
			defer cancel()
			m.SetContext(mctx)
			if k == 2 {
				cancel()
			}
		}
		mu.Lock()
		deliveries[tag] = d
		cancels[tag] = cancel
		releaseOf[tag] = make(chan struct{})
		mu.Unlock()
		dd, ok := s.Emit(m, tag, 0, lib.Live)
		if !ok {
			t.Fatalf("harness: router did not take message %s", tag)
		}
		ds = append(ds, dd)
	}
	inFlight := 1
	if c.Barrier {
		got := 0
		tm := time.After(4 * time.Second)
	wait:
		for got < len(c.Msgs) {
			select {
			case <-started:
				got++
			case <-tm:
				break wait
			}
		}
		inFlight = got
		// a message is settled when ITS handling is over, however long the messages that arrived before it still take:
		// finish the most recent one first and wait for its settlement while every earlier invocation is still held
		if got == len(c.Msgs) && got >= 2 && c.CancelMid < 0 {
			last := ds[len(ds)-1]
			mu.Lock()
			close(releaseOf[last.Tag])
			mu.Unlock()
			if _, ok := last.Wait(lib.Live); !ok {
				close(release)
				t.Fatalf("violation: message %s (%s) finished its handling but was not settled within %v while %d earlier messages of the handler were still being handled", last.Tag, behavOf(last.Tag), lib.Live, got-1)
			}
		}
		close(release)
	}

	// every message the router took must be settled; after the Run context was cancelled a message may instead be
	// dropped before it reaches the handler (never handled, never acked)
	dropped := map[string]bool{}
	for i, d := range ds {
		_ = i
		if c.CancelMid >= 0 {
			// also a message emitted just before the cancellation may still sit in the subscriber decorator
			invoked := func() bool {
				mu.Lock()
				defer mu.Unlock()
				r := recs[d.Tag]
				return r != nil && r.handlerCalls > 0
			}
			if !lib.WaitUntil(30*time.Millisecond, invoked) {
				if a, _ := d.State(); a {
					t.Fatalf("violation: message %s was acked although its handler never ran (Run context cancelled)", d.Tag)
				}
				dropped[d.Tag] = true
				continue
			}
		}
		if _, ok := d.Wait(2 * lib.Live); !ok {
			t.Fatalf("violation: message %s (%s) was never settled", d.Tag, behavOf(d.Tag))
		}
	}
	// let late effects (a second publish, a late handler call) surface
	time.Sleep(200 * time.Microsecond)

	if c.CancelMid >= 0 {
		sub.Close() // this subscriber ignores its context: end the subscription so that the handler can stop
	}
	closed := make(chan error, 1)
	go func() { closed <- router.Close() }()
	select {
	case <-closed:
	case <-time.After(lib.Live):
		lib.Count("router_close_slow", 1)
	}

	mu.Lock()
	defer mu.Unlock()
	calls := pub.Calls()
	callsBySrc := map[string][]*lib.PubCall{}
	for _, pc := range calls {
		src := ""
		if len(pc.Msgs) > 0 {
			src = pc.Msgs[0].Metadata.Get("src")
		}
		callsBySrc[src] = append(callsBySrc[src], pc)
		if pc.Topic != "out" {
			t.Fatalf("violation: Publish on topic %q, handler's publish topic is %q", pc.Topic, "out")
		}
	}
	if len(callsBySrc[""]) > 0 {
		t.Fatalf("violation: Publish call with an empty batch or untagged messages: %d", len(callsBySrc[""]))
	}
	nonSuccess := false
	for i, d := range ds {
		tag := d.Tag
		b := c.Msgs[i]
		if dropped[tag] {
			if r := recs[tag]; r != nil && r.handlerCalls > 0 {
				// handled late after all: too late to judge here
			}
			continue
		}
		r := recs[tag]
		if r == nil || r.handlerCalls != 1 {
			n := 0
			if r != nil {
				n = r.handlerCalls
			}
			t.Fatalf("violation: handler ran %d times for message %s (%s), want exactly 1", n, tag, b)
		}
		handlerOK := b.Err == 0 && b.Panic == 0
		nOut := 0
		if handlerOK {
			nOut = b.Outputs + appended
			if b.Shared {
				nOut++
			}
		}
		expectPublish := handlerOK && nOut > 0 && !c.NoPublisher && !c.NilPublisher
		var wantAck bool
		switch {
		case b.Self == 1:
			wantAck = true
		case b.Self == 2:
			wantAck = false
		default:
			wantAck = handlerOK && (nOut == 0 || (!c.NoPublisher && !c.NilPublisher && b.Pub == 0))
		}
		if !wantAck || b.Self != 0 || !handlerOK || (expectPublish && b.Pub != 0) {
			nonSuccess = true
		}
		a, n := d.State()
		if a && n {
			t.Fatalf("violation: message %s both acked and nacked", tag)
		}
		if a != wantAck || n == wantAck {
			t.Fatalf("violation: message %s (%s; noPublisher=%v, appended outputs=%d): acked=%v nacked=%v, model says ack=%v",
				tag, b, c.NoPublisher, appended, a, n, wantAck)
		}
		pcs := callsBySrc[tag]
		if expectPublish {
			if len(pcs) != 1 {
				t.Fatalf("violation: %d Publish calls for message %s (%s), want exactly 1", len(pcs), tag, b)
			}
			pc := pcs[0]
			if !r.sawReturn || len(pc.Msgs) != len(r.returned) || len(pc.Msgs) != nOut {
				t.Fatalf("violation: Publish got %d messages for %s, chain returned %d (model %d)", len(pc.Msgs), tag, len(r.returned), nOut)
			}
			for k := range pc.Msgs {
				if pc.Msgs[k] != r.returned[k] {
					t.Fatalf("violation: Publish argument %d for %s is not the returned message object (or order changed)", k, tag)
				}
			}
			o := pubObsBy[tag][0]
			if b.Self == 0 && (o.startAcked || o.startNacked || o.endAcked || o.endNacked) {
				t.Fatalf("violation: message %s was already settled (%+v) while its outputs were being published", tag, o)
			}
			if b.Self == 1 && (o.startNacked || o.endNacked) || b.Self == 2 && (o.startAcked || o.endAcked) {
				t.Fatalf("violation: handler-made settlement of %s overridden during publish (%+v)", tag, o)
			}
		} else if len(pcs) != 0 {
			t.Fatalf("violation: %d Publish calls for message %s (%s; noPublisher=%v), want none", len(pcs), tag, b, c.NoPublisher)
		}
	}
	cls := []string{}
	if inFlight >= 2 {
		cls = append(cls, "in-flight>=2")
	}
	if nonSuccess {
		cls = append(cls, "non-success")
	}
	if c.NoPublisher {
		cls = append(cls, "no-publisher")
	}
	lib.Case(c.canon(), nonSuccess || inFlight >= 2, cls...)
	if nonSuccess {
		lib.Sample(map[string]any{"test": "RouterSettlement", "case": fmt.Sprintf("%+v", c), "in_flight": inFlight, "publish_calls": len(calls)})
	}
}

func TestRouterSettlement(t *testing.T) {
	rapid.Check(t, func(t *rapid.T) {
		runCase(t, genCase(t))
	})
}
