// C10 — Router lifecycle: Running, RunHandlers, Stop and self-close behave as documented.
package c10

import (
	"context"
	stderrors "errors"
	"fmt"
	"strings"
	"sync"
	"sync/atomic"
	"testing"
	"time"

	"github.com/ThreeDotsLabs/watermill"
	"github.com/ThreeDotsLabs/watermill/message"
	"github.com/ThreeDotsLabs/watermill/verifharness/lib"
	"pgregory.net/rapid"
)

func TestMain(m *testing.M) {
	lib.Extra("rule", "rapid state machine over a real Router: {AddHandler (before / after Run; own scripted subscriber; publisher distinct, shared or none), Run, RunHandlers xN sequentially or concurrently, wait Started + probe, Stop(handler), cancel the Run context, Close}, 1..5 handlers, in every order the API permits; "+
		"model: Subscribe calls per handler (<=1 always, =1 once a RunHandlers started after its AddHandler), Running() closed only when every handler added before Run holds its subscription, probes handled by started handlers, Stop/Stopped usable after Started, Stop ends that handler only, Run returns nil after the last handler ended / ctx cancel / Close, second Run fails. "+
		"Plus a forced schedule: the goroutine inside RunHandlers is parked right after a handler's Started() closed while the harness calls Stop() and Stopped(). "+
		"Non-trivial: the program contains a Stop or a repeated/concurrent RunHandlers (state machine) / the park was achieved (forced). Race detector on."+
		" The machine also makes AddHandler calls the router refuses (name taken; the panic is recovered): they must leave no trace.")
	lib.Extra("assumptions", []string{
		"handlers are not added concurrently with the router shutting down; handlers sharing the stopped handler's publisher are not probed after the Stop",
		"10 s liveness bounds",
	})
	lib.Main(m)
}

type hstate struct {
	name            string
	sub             *lib.ScriptSub
	pub             int // -1 none
	handle          *message.Handler
	addedBeforeRun  bool
	shouldBeStarted bool
	stopped         bool
	handled         map[string]bool
	held            chan struct{} // non-nil while an invocation of this handler is parked inside the handler func
}

type machine struct {
	router     *message.Router
	hs         []*hstate
	pubs       []*lib.ScriptPub
	mu         sync.Mutex
	running    bool
	ended      bool
	runRet     chan error
	cancel     context.CancelFunc
	runCtx     context.Context
	ops        []string
	nontrivial bool
}

// bounded runs a call of the API that must not block and reports it when it does (a lock that is never released, ...).
func (m *machine) bounded(t *rapid.T, what string, fn func()) {
	done := make(chan any, 1)
	go func() {
		defer func() { done <- recover() }()
		fn()
	}()
	select {
	case p := <-done:
		if p != nil {
			panic(p)
		}
	case <-time.After(lib.Live):
		t.Fatalf("violation: %s did not return within %v (ops %v)", what, lib.Live, m.ops)
	}
}

func (m *machine) log(f string, a ...any) { m.ops = append(m.ops, fmt.Sprintf(f, a...)) }

func (m *machine) addHandler(t *rapid.T) {
	if m.ended || len(m.hs) >= 5 {
		return // not applicable in this state (cannot add): a no-op, never a skipped action
	}
	if rapid.IntRange(0, 4).Draw(t, "nameAlreadyTaken") == 0 {
		// an AddHandler call the router refuses (it panics with DuplicateHandlerNameError): a refused call leaves no trace,
		// everything after it goes on as if it had not been made
		for _, old := range m.hs {
			if old.stopped {
				continue
			}
			func() {
				defer func() {
					if r := recover(); r != nil {
						m.log("AddHandler(%s) refused: name taken", old.name)
					}
				}()
				m.router.AddNoPublisherHandler(old.name, "in-dup", lib.NewScriptSub(""), func(*message.Message) error { return nil })
			}()
			break
		}
	}
	h := &hstate{name: fmt.Sprintf("h%d", len(m.hs)), sub: lib.NewScriptSub(""), handled: map[string]bool{}}
	h.pub = rapid.IntRange(-1, len(m.pubs)-1).Draw(t, "publisher")
	h.addedBeforeRun = !m.running
	fn := func(msg *message.Message) ([]*message.Message, error) {
		m.mu.Lock()
		h.handled[msg.UUID] = true
		gate := h.held
		m.mu.Unlock()
		if gate != nil && strings.HasPrefix(msg.UUID, "hold-") {
			select {
			case <-gate: // a long-running invocation
			case <-time.After(4 * lib.Live): // safety net only, far beyond every liveness bound
			}
		}
		if h.pub >= 0 {
			return []*message.Message{message.NewMessage("out-"+msg.UUID, nil)}, nil
		}
		return nil, nil
	}
	m.bounded(t, "AddHandler("+h.name+")", func() {
		if h.pub >= 0 {
			h.handle = m.router.AddHandler(h.name, "in-"+h.name, h.sub, "out", m.pubs[h.pub], fn)
		} else {
			h.handle = m.router.AddNoPublisherHandler(h.name, "in-"+h.name, h.sub, func(msg *message.Message) error { _, err := fn(msg); return err })
		}
	})
	m.hs = append(m.hs, h)
	m.log("AddHandler(%s, publisher %d, beforeRun=%v)", h.name, h.pub, h.addedBeforeRun)
}

func (m *machine) run(t *rapid.T) {
	if m.running || m.ended {
		return // not applicable in this state (already running): a no-op, never a skipped action
	}
	ctx, cancel := context.WithCancel(context.Background())
	m.cancel = cancel
	m.runCtx = ctx
	m.runRet = make(chan error, 1)
	before := len(m.hs)
	go func() { m.runRet <- m.router.Run(ctx) }()
	select {
	case <-m.router.Running():
	case <-time.After(lib.Live):
		t.Fatalf("violation: Running() not closed within %v after Run was called (ops %v)", lib.Live, m.ops)
	}
	// at the instant Running() is observed closed every handler registered before Run holds its subscription
	for _, h := range m.hs[:before] {
		if n := len(h.sub.Subs()); n != 1 {
			t.Fatalf("violation: Running() is closed but handler %s (added before Run) has %d subscriptions (ops %v)", h.name, n, m.ops)
		}
		h.shouldBeStarted = true
	}
	m.running = true
	m.log("Run -> Running")
}

func (m *machine) runHandlers(t *rapid.T) {
	if !m.running || m.ended {
		return // not applicable in this state (not running): a no-op, never a skipped action
	}
	mode := rapid.SampledFrom([]string{"once", "twice", "concurrent"}).Draw(t, "runHandlersMode")
	// "ctx will be propagated to all subscribers": handlers started later get the Run context as well
	do := func() (err error) {
		m.bounded(t, "RunHandlers", func() { err = m.router.RunHandlers(m.runCtx) })
		return err
	}
	switch mode {
	case "once":
		if err := do(); err != nil {
			t.Fatalf("violation: RunHandlers returned %v", err)
		}
	case "twice":
		m.nontrivial = true
		for i := 0; i < 2; i++ {
			if err := do(); err != nil {
				t.Fatalf("violation: RunHandlers returned %v", err)
			}
		}
	case "concurrent":
		m.nontrivial = true
		var wg sync.WaitGroup
		errs := make([]error, 3)
		for i := range errs {
			wg.Add(1)
			go func(i int) { defer wg.Done(); errs[i] = m.router.RunHandlers(m.runCtx) }(i)
		}
		done := make(chan struct{})
		go func() { wg.Wait(); close(done) }()
		select {
		case <-done:
		case <-time.After(lib.Live):
			t.Fatalf("violation: concurrent RunHandlers calls did not return")
		}
		for _, e := range errs {
			if e != nil {
				t.Fatalf("violation: RunHandlers returned %v", e)
			}
		}
	}
	for _, h := range m.hs {
		if !h.stopped {
			h.shouldBeStarted = true
		}
	}
	m.log("RunHandlers(%s)", mode)
}

func (m *machine) probe(t *rapid.T, h *hstate, tag string) {
	select {
	case <-h.handle.Started():
	case <-time.After(lib.Live):
		t.Fatalf("violation: Started() of %s not closed although a RunHandlers ran after it was added (ops %v)", h.name, m.ops)
	}
	subs := h.sub.Subs()
	if len(subs) != 1 {
		t.Fatalf("violation: handler %s has %d subscriptions, want exactly 1 (ops %v)", h.name, len(subs), m.ops)
	}
	msg := message.NewMessage(tag, nil)
	d, ok := subs[0].Emit(msg, tag, 0, lib.Live)
	if !ok {
		t.Fatalf("violation: started handler %s does not take messages (ops %v)", h.name, m.ops)
	}
	acked, settled := d.Wait(2 * lib.Live)
	m.mu.Lock()
	handled := h.handled[tag]
	m.mu.Unlock()
	if !settled || !acked || !handled {
		t.Fatalf("violation: probe %s on handler %s: handled=%v settled=%v acked=%v (ops %v)", tag, h.name, handled, settled, acked, m.ops)
	}
}

func (m *machine) probeAll(t *rapid.T) {
	if m.ended {
		return
	}
	n := 0
	for _, h := range m.hs {
		if h.shouldBeStarted && !h.stopped && !m.publisherClosed(h) {
			m.probe(t, h, fmt.Sprintf("probe-%d-%s", len(m.ops), h.name))
			n++
		}
	}
	m.log("probe(%d handlers)", n)
}

// publisherClosed: a stopped handler closed its publisher; siblings sharing it are outside the property.
func (m *machine) publisherClosed(h *hstate) bool {
	if h.pub < 0 {
		return false
	}
	for _, o := range m.hs {
		if o != h && o.stopped && o.pub == h.pub {
			return true
		}
	}
	return false
}

// hold: one handler gets a long-running invocation (released later); other handlers must be unaffected.
func (m *machine) hold(t *rapid.T) {
	if !m.running || m.ended {
		return
	}
	var cands []*hstate
	for _, h := range m.hs {
		if h.shouldBeStarted && !h.stopped && h.held == nil && !m.publisherClosed(h) {
			cands = append(cands, h)
		}
	}
	if len(cands) == 0 {
		return
	}
	h := cands[rapid.IntRange(0, len(cands)-1).Draw(t, "holdHandler")]
	select {
	case <-h.handle.Started():
	case <-time.After(lib.Live):
		t.Fatalf("violation: Started() of %s not closed (ops %v)", h.name, m.ops)
	}
	m.mu.Lock()
	h.held = make(chan struct{})
	m.mu.Unlock()
	tag := fmt.Sprintf("hold-%d-%s", len(m.ops), h.name)
	if _, ok := h.sub.Subs()[0].Emit(message.NewMessage(tag, nil), tag, 0, lib.Live); !ok {
		t.Fatalf("violation: started handler %s does not take messages (ops %v)", h.name, m.ops)
	}
	if !lib.WaitUntil(lib.Live, func() bool { m.mu.Lock(); defer m.mu.Unlock(); return h.handled[tag] }) {
		t.Fatalf("violation: message for %s not handled (ops %v)", h.name, m.ops)
	}
	m.nontrivial = true
	m.log("hold(%s)", h.name)
}

func (m *machine) releaseAll() {
	m.mu.Lock()
	for _, h := range m.hs {
		if h.held != nil {
			close(h.held)
			h.held = nil
		}
	}
	m.mu.Unlock()
}

func (m *machine) release(t *rapid.T) {
	m.releaseAll()
	m.log("release held invocations")
}

func (m *machine) stop(t *rapid.T) {
	if !m.running || m.ended {
		return // not applicable in this state (not running): a no-op, never a skipped action
	}
	var cands []*hstate
	for _, h := range m.hs {
		if h.shouldBeStarted && !h.stopped {
			cands = append(cands, h)
		}
	}
	if len(cands) == 0 {
		return // not applicable in this state (nothing to stop): a no-op, never a skipped action
	}
	h := cands[rapid.IntRange(0, len(cands)-1).Draw(t, "stopHandler")]
	select {
	case <-h.handle.Started():
	case <-time.After(lib.Live):
		t.Fatalf("violation: Started() of %s not closed (ops %v)", h.name, m.ops)
	}
	// "Stop ends that handler only": often stop it while another handler is inside a long-running invocation
	if len(cands) >= 2 && rapid.Bool().Draw(t, "whileAnotherHandlerIsBusy") {
		m.hold(t)
	}
	// an implementation may let Stopped() wait for the handler's own running invocation: release that one
	m.mu.Lock()
	if h.held != nil {
		close(h.held)
		h.held = nil
	}
	m.mu.Unlock()
	func() {
		defer func() {
			if r := recover(); r != nil {
				t.Fatalf("violation: Stop() of %s panicked after Started() was closed: %v (ops %v)", h.name, r, m.ops)
			}
		}()
		h.handle.Stop()
	}()
	st := h.handle.Stopped()
	if st == nil {
		t.Fatalf("violation: Stopped() of %s is nil after Started() was closed (ops %v)", h.name, m.ops)
	}
	select {
	case <-st:
	case <-time.After(lib.Live):
		t.Fatalf("violation: Stopped() of %s not closed within %v after Stop() (ops %v)", h.name, lib.Live, m.ops)
	}
	h.stopped = true
	m.nontrivial = true
	m.log("Stop(%s)", h.name)
	// "once Started() is closed Stop() is usable": also a second time, when the handler is long gone (a deferred
	// clean-up Stop after the handler was stopped or its subscription dropped)
	if rapid.Bool().Draw(t, "stopAgainLater") {
		time.Sleep(2 * time.Millisecond)
		func() {
			defer func() {
				if r := recover(); r != nil {
					t.Fatalf("violation: a second Stop() of %s (already stopped) panicked: %v (ops %v)", h.name, r, m.ops)
				}
			}()
			h.handle.Stop()
		}()
		m.log("Stop(%s) again", h.name)
	}
	// was that the last handler? then the router closes itself
	alive := 0
	for _, o := range m.hs {
		if !o.stopped {
			alive++
		}
	}
	if alive == 0 {
		m.releaseAll()
		m.expectRunReturns(t, "the last handler ended")
	}
}

func (m *machine) expectRunReturns(t *rapid.T, why string) {
	select {
	case err := <-m.runRet:
		if err != nil {
			t.Fatalf("violation: Run returned %v after %s, want nil (ops %v)", err, why, m.ops)
		}
	case <-time.After(lib.Live):
		t.Fatalf("violation: Run did not return within %v after %s (ops %v)", lib.Live, why, m.ops)
	}
	if !lib.WaitUntil(lib.Live, m.router.IsClosed) {
		t.Fatalf("violation: router not closed after %s", why)
	}
	m.ended = true
	m.log("Run returned nil (%s)", why)
	// the router is closed and Run has returned: every started handler has ended, so its Stopped() says so
	for _, h := range m.hs {
		if !h.shouldBeStarted {
			continue
		}
		select {
		case <-h.handle.Started():
		default:
			continue
		}
		st := h.handle.Stopped()
		if st == nil {
			t.Fatalf("violation: Stopped() of %s is nil although Started() is closed (ops %v)", h.name, m.ops)
		}
		select {
		case <-st:
		case <-time.After(lib.Live):
			t.Fatalf("violation: router closed and Run returned (%s), but Stopped() of handler %s was never closed (ops %v)", why, h.name, m.ops)
		}
	}
	if err := m.router.Run(context.Background()); err == nil {
		t.Fatalf("violation: a second Run returned nil (ops %v)", m.ops)
	}
}

// allStarted: every added handler has been started (a handler added after Run and never started
// keeps the router's handler count above zero; shutting down in that state is outside the property).
func (m *machine) allStarted() bool {
	for _, h := range m.hs {
		if !h.shouldBeStarted {
			return false
		}
	}
	return len(m.hs) > 0
}

func (m *machine) cancelCtx(t *rapid.T) {
	if !m.running || m.ended || !m.allStarted() {
		return // not applicable in this state (not running / unstarted handlers): a no-op, never a skipped action
	}
	m.releaseAll()
	m.cancel()
	m.log("cancel Run context")
	m.expectRunReturns(t, "the Run context was cancelled")
}

func (m *machine) closeRouter(t *rapid.T) {
	if !m.running || m.ended || !m.allStarted() {
		return // not applicable in this state (not running / unstarted handlers): a no-op, never a skipped action
	}
	m.releaseAll()
	done := make(chan error, 1)
	go func() { done <- m.router.Close() }()
	select {
	case err := <-done:
		if err != nil {
			t.Fatalf("violation: Close returned %v with idle handlers", err)
		}
	case <-time.After(lib.Live):
		t.Fatalf("violation: Close did not return")
	}
	m.log("Close")
	m.expectRunReturns(t, "Close")
}

func (m *machine) invariant(t *rapid.T) {
	for _, h := range m.hs {
		n := len(h.sub.Subs())
		if n > 1 {
			t.Fatalf("violation: handler %s was subscribed %d times (RunHandlers must start each handler once) (ops %v)", h.name, n, m.ops)
		}
		if h.shouldBeStarted && n != 1 {
			t.Fatalf("violation: handler %s has %d subscriptions after a RunHandlers that followed its AddHandler (ops %v)", h.name, n, m.ops)
		}
	}
}

func TestLifecycleMachine(t *testing.T) {
	rapid.Check(t, func(t *rapid.T) {
		router, err := message.NewRouter(message.RouterConfig{CloseTimeout: 5 * time.Second}, watermill.NopLogger{})
		if err != nil {
			t.Fatalf("NewRouter: %v", err)
		}
		m := &machine{router: router}
		for i := 0; i < 3; i++ {
			m.pubs = append(m.pubs, lib.NewScriptPub(""))
		}
		if rapid.Bool().Draw(t, "onePublisherFailsToClose") {
			// a publisher whose Close reports an error (a failed final flush): the handler has ended all the same
			m.pubs[2].CloseErr = stderrors.New("final flush failed")
		}
		ctl := lib.Install()
		defer ctl.Uninstall()
		ctl.Noise(rapid.SliceOfN(rapid.Uint8Range(0, 5), 0, 8).Draw(t, "noise"))
		defer func() {
			m.releaseAll()
			if m.running && !m.ended {
				go m.router.Close()
			}
		}()
		t.Repeat(map[string]func(*rapid.T){
			"addHandler":  m.addHandler,
			"run":         m.run,
			"runHandlers": m.runHandlers,
			"probe":       m.probeAll,
			"stop":        m.stop,
			"hold":        m.hold,
			"release":     m.release,
			"cancelCtx":   m.cancelCtx,
			"close":       m.closeRouter,
			"":            m.invariant,
		})
		lib.Case(strings.Join(m.ops, ";"), m.nontrivial, fmt.Sprintf("ops=%d", len(m.ops)/4*4))
		if m.nontrivial {
			lib.Sample(map[string]any{"test": "LifecycleMachine", "ops": m.ops})
		}
	})
}

// ---------- forced: Stop()/Stopped() right after Started() ----------

func TestStopRightAfterStarted(t *testing.T) {
	rapid.Check(t, func(t *rapid.T) {
		n := rapid.IntRange(1, 4).Draw(t, "handlers")
		skip := rapid.IntRange(0, n-1).Draw(t, "whichStart")
		late := rapid.Bool().Draw(t, "handlerAddedAfterRun")
		router, err := message.NewRouter(message.RouterConfig{CloseTimeout: 5 * time.Second}, watermill.NopLogger{})
		if err != nil {
			t.Fatalf("NewRouter: %v", err)
		}
		ctl := lib.Install()
		defer ctl.Uninstall()
		var hs []*message.Handler
		add := func(i int) {
			hs = append(hs, router.AddNoPublisherHandler(fmt.Sprintf("h%d", i), "t", lib.NewScriptSub(""), func(*message.Message) error { return nil }))
		}
		first := n
		if late {
			first = 0
			add(100) // a handler must exist for Run to stay up
		}
		for i := 0; i < first; i++ {
			add(i)
		}
		var park *lib.Parked
		if !late {
			park = ctl.Park("router.runhandlers.started", nil, skip)
		}
		go router.Run(context.Background())
		if late {
			select {
			case <-router.Running():
			case <-time.After(lib.Live):
				t.Fatalf("harness: router did not start")
			}
			for i := 0; i < n; i++ {
				add(i)
			}
			park = ctl.Park("router.runhandlers.started", nil, skip)
			go router.RunHandlers(context.Background())
		}
		achieved := park.WaitReached(200 * time.Millisecond)
		defer func() {
			park.Release()
			done := make(chan struct{})
			go func() { router.Close(); close(done) }()
			select {
			case <-done:
			case <-time.After(lib.Live):
			}
		}()
		if achieved {
			// some handler's Started() is closed right now and its starter is parked
			var subject *message.Handler
			for _, h := range hs {
				select {
				case <-h.Started():
					subject = h
				default:
				}
			}
			if subject == nil {
				t.Fatalf("harness: parked after Started() but no Started() channel is closed")
			}
			for _, h := range hs {
				select {
				case <-h.Started():
				default:
					continue
				}
				// RunHandlers is still busy with the other handlers (its goroutine is parked): Stop of a started handler
				// must not wait for it
				stopRet := make(chan any, 1)
				go func() {
					defer func() { stopRet <- recover() }()
					h.Stop()
				}()
				select {
				case r := <-stopRet:
					if r != nil {
						t.Fatalf("violation: Stop() panicked although Started() is closed: %v", r)
					}
				case <-time.After(lib.Live):
					t.Fatalf("violation: Stop() of a handler whose Started() is closed did not return within %v while RunHandlers was still starting other handlers", lib.Live)
				}
				if h.Stopped() == nil {
					t.Fatalf("violation: Stopped() is nil although Started() is closed")
				}
			}
			park.Release()
			for _, h := range hs {
				select {
				case <-h.Started():
				default:
					continue
				}
				_ = h
			}
			select {
			case <-subject.Stopped():
			case <-time.After(lib.Live):
				t.Fatalf("violation: Stopped() not closed within %v after Stop()", lib.Live)
			}
		}
		lib.Case(fmt.Sprintf("forced|%d|%d|%v", n, skip, late), achieved, "forced-stop", fmt.Sprintf("achieved=%v", achieved))
		if achieved {
			lib.Sample(map[string]any{"test": "StopRightAfterStarted", "handlers": n, "which_start": skip, "added_after_run": late})
		}
	})
}

// ---------- forced: Stop() while a message sits in the handler's subscriber decorator ----------

func TestStopWithMessageInFlight(t *testing.T) {
	rapid.Check(t, func(t *rapid.T) {
		n := rapid.IntRange(1, 3).Draw(t, "handlers")
		k := rapid.IntRange(0, n-1).Draw(t, "stoppedHandler")
		viaCtx := rapid.Bool().Draw(t, "cancelRunContextInstead")
		router, err := message.NewRouter(message.RouterConfig{CloseTimeout: 5 * time.Second}, watermill.NopLogger{})
		if err != nil {
			t.Fatalf("NewRouter: %v", err)
		}
		ctl := lib.Install()
		defer ctl.Uninstall()
		subs := make([]*lib.ScriptSub, n)
		hs := make([]*message.Handler, n)
		var mu sync.Mutex
		handled := map[string]bool{}
		for i := range subs {
			subs[i] = lib.NewScriptSub("")
			hs[i] = router.AddNoPublisherHandler(fmt.Sprintf("h%d", i), "t", subs[i], func(m *message.Message) error {
				mu.Lock()
				handled[m.UUID] = true
				mu.Unlock()
				return nil
			})
		}
		ctx, cancel := context.WithCancel(context.Background())
		defer cancel()
		runRet := make(chan error, 1)
		go func() { runRet <- router.Run(ctx) }()
		select {
		case <-router.Running():
		case <-time.After(lib.Live):
			t.Fatalf("harness: router did not start")
		}
		// park the forwarding goroutine of handler k's decorator with a message in its hands
		park := ctl.Park("decorator.sub.before_out", nil, 0)
		msg := message.NewMessage("in-flight", nil)
		d, ok := subs[k].Subs()[0].Emit(msg, "in-flight", 0, lib.Live)
		if !ok {
			t.Fatalf("harness: message not taken")
		}
		achieved := park.WaitReached(100 * time.Millisecond)
		if viaCtx {
			cancel()
		} else {
			hs[k].Stop()
		}
		time.Sleep(time.Duration(rapid.IntRange(0, 2).Draw(t, "releaseDelayMs")) * time.Millisecond)
		park.Release()
		// the stopped handler ends although a delivery raced with the stop
		select {
		case <-hs[k].Stopped():
		case <-time.After(lib.Live):
			t.Fatalf("violation: Stopped() of the handler not closed within %v after %s with a message in flight in its subscriber decorator (forced=%v)", lib.Live, map[bool]string{true: "the Run context was cancelled", false: "Stop()"}[viaCtx], achieved)
		}
		// the message is either handled (and settled by the router) or never handled and never acked
		time.Sleep(time.Millisecond)
		mu.Lock()
		wasHandled := handled["in-flight"]
		mu.Unlock()
		if a, _ := d.State(); a && !wasHandled {
			t.Fatalf("violation: the in-flight message was acked without being handled")
		}
		if viaCtx || n == 1 {
			select {
			case err := <-runRet:
				if err != nil {
					t.Fatalf("violation: Run returned %v", err)
				}
			case <-time.After(lib.Live):
				t.Fatalf("violation: Run did not return within %v after the last handler ended / the context was cancelled", lib.Live)
			}
		} else {
			// the others keep processing
			for i := range subs {
				if i == k {
					continue
				}
				tag := fmt.Sprintf("probe-%d", i)
				pd, ok := subs[i].Subs()[0].Emit(message.NewMessage(tag, nil), tag, 0, lib.Live)
				if !ok {
					t.Fatalf("violation: handler %d stopped taking messages after another handler was stopped", i)
				}
				if acked, settled := pd.Wait(lib.Live); !settled || !acked {
					t.Fatalf("violation: handler %d does not process messages after another handler was stopped", i)
				}
			}
			done := make(chan struct{})
			go func() { router.Close(); close(done) }()
			select {
			case <-done:
			case <-time.After(lib.Live):
				t.Fatalf("violation: Close did not return")
			}
		}
		lib.Case(fmt.Sprintf("inflight|%d|%d|%v", n, k, viaCtx), achieved, "stop-with-message-in-flight", fmt.Sprintf("achieved=%v", achieved))
		if achieved {
			lib.Sample(map[string]any{"test": "StopWithMessageInFlight", "handlers": n, "stopped": k, "via_ctx_cancel": viaCtx})
		}
	})
}

// ---------- forced: Close() arrives while RunHandlers is still starting handlers ----------

func TestCloseDuringStartup(t *testing.T) {
	rapid.Check(t, func(t *rapid.T) {
		n := rapid.IntRange(2, 4).Draw(t, "handlers")
		skip := rapid.IntRange(0, n-2).Draw(t, "closeAfterStarts")
		late := rapid.Bool().Draw(t, "duringUserRunHandlers")
		router, err := message.NewRouter(message.RouterConfig{CloseTimeout: 5 * time.Second}, watermill.NopLogger{})
		if err != nil {
			t.Fatalf("NewRouter: %v", err)
		}
		ctl := lib.Install()
		defer ctl.Uninstall()
		var allSubs []*lib.ScriptSub
		add := func(i int) {
			ss := lib.NewScriptSub("")
			allSubs = append(allSubs, ss)
			router.AddNoPublisherHandler(fmt.Sprintf("h%d", i), "t", ss, func(*message.Message) error { return nil })
		}
		// "Running() is closed only after every registered handler holds its subscription", whatever else goes on
		runningImpliesSubscribed := func(when string) {
			select {
			case <-router.Running():
				for k, ss := range allSubs {
					if len(ss.Subs()) == 0 {
						t.Fatalf("violation: Running() is closed (%s) although handler #%d of %d has not subscribed yet", when, k, len(allSubs))
					}
				}
			default:
			}
		}
		var park *lib.Parked
		runRet := make(chan error, 1)
		if late {
			add(100)
			go func() { runRet <- router.Run(context.Background()) }()
			select {
			case <-router.Running():
			case <-time.After(lib.Live):
				t.Fatalf("harness: router did not start")
			}
			for i := 0; i < n; i++ {
				add(i)
			}
			park = ctl.Park("router.runhandlers.started", nil, skip)
			go router.RunHandlers(context.Background())
		} else {
			for i := 0; i < n; i++ {
				add(i)
			}
			park = ctl.Park("router.runhandlers.started", nil, skip)
			go func() { runRet <- router.Run(context.Background()) }()
		}
		achieved := park.WaitReached(200 * time.Millisecond)
		closed := make(chan error, 1)
		go func() { closed <- router.Close() }()
		time.Sleep(time.Duration(rapid.IntRange(0, 3).Draw(t, "releaseDelayMs")) * time.Millisecond)
		if achieved && !late {
			// the starter is parked between two handlers and Close has been called
			runningImpliesSubscribed("Close() called while Run is still starting handlers")
		}
		park.Release()
		select {
		case <-closed:
		case <-time.After(lib.Live):
			t.Fatalf("violation: Close() called while handlers were being started did not return within %v (forced=%v, during user RunHandlers=%v)", lib.Live, achieved, late)
		}
		select {
		case <-runRet:
		case <-time.After(lib.Live):
			t.Fatalf("violation: Run did not return within %v after Close() (forced=%v)", lib.Live, achieved)
		}
		lib.Case(fmt.Sprintf("close-startup|%d|%d|%v", n, skip, late), achieved, "close-during-startup", fmt.Sprintf("achieved=%v", achieved))
		if achieved {
			lib.Sample(map[string]any{"test": "CloseDuringStartup", "handlers": n, "close_after_starts": skip + 1, "during_user_RunHandlers": late})
		}
	})
}

// ---------- forced: the Run context ends, or Run is called again, while the router is still starting ----------

func TestStartupInterference(t *testing.T) {
	rapid.Check(t, func(t *rapid.T) {
		n := rapid.IntRange(1, 4).Draw(t, "handlers")
		skip := rapid.IntRange(0, n-1).Draw(t, "afterStarts")
		action := rapid.SampledFrom([]string{"cancel-before-run", "cancel-during-startup", "second-run-during-startup", "close-before-run", "subscribe-fails", "subscribe-fails-then-retried", "cancel-with-no-handlers-then-add"}).Draw(t, "action")
		closeTimeout := 5 * time.Second
		if action == "close-before-run" || action == "subscribe-fails" {
			closeTimeout = 50 * time.Millisecond // Close of a never-run router with handlers runs into its timeout on the unchanged tree
		}
		router, err := message.NewRouter(message.RouterConfig{CloseTimeout: closeTimeout}, watermill.NopLogger{})
		if err != nil {
			t.Fatalf("NewRouter: %v", err)
		}
		ctl := lib.Install()
		defer ctl.Uninstall()
		if action == "subscribe-fails-then-retried" || action == "cancel-with-no-handlers-then-add" {
			lateStartFlows(t, router, action)
			lib.Case(fmt.Sprintf("startup|%s", action), true, "startup-interference", action)
			return
		}
		var allSubs []*lib.ScriptSub
		for i := 0; i < n; i++ {
			ss := lib.NewScriptSub("")
			allSubs = append(allSubs, ss)
			router.AddNoPublisherHandler(fmt.Sprintf("h%d", i), "t", ss, func(*message.Message) error { return nil })
		}
		if action == "subscribe-fails" {
			// one handler's Subscribe fails: whatever Run does about it, Running() must not claim that every handler
			// holds its subscription
			failing := skip % n
			allSubs[failing].SubscribeErr = func(int, string) error { return stderrors.New("topic unavailable") }
			rctx, rcancel := context.WithCancel(context.Background())
			defer rcancel()
			ret := make(chan error, 1)
			go func() { ret <- router.Run(rctx) }()
			select {
			case <-ret:
			case <-time.After(50 * time.Millisecond):
			}
			select {
			case <-router.Running():
				for k, ss := range allSubs {
					if len(ss.Subs()) == 0 {
						t.Fatalf("violation: Running() is closed although handler #%d of %d has no subscription (its Subscribe failed)", k, n)
					}
				}
			default:
			}
			rcancel()
			done := make(chan struct{})
			go func() { router.Close(); close(done) }()
			select {
			case <-done:
			case <-time.After(5*time.Second + lib.Live):
			}
			lib.Case(fmt.Sprintf("startup|%s|%d|%d", action, n, failing), true, "startup-interference", action)
			return
		}
		if action == "close-before-run" {
			// a router that is closed before it was run: Running() must not claim that the handlers are subscribed
			closeRet := make(chan struct{})
			go func() { router.Close(); close(closeRet) }()
			select {
			case <-closeRet:
			case <-time.After(5*time.Second + lib.Live):
				t.Fatalf("violation: Close() of a router that was never run did not return")
			}
			select {
			case <-router.Running():
				for k, ss := range allSubs {
					if len(ss.Subs()) == 0 {
						t.Fatalf("violation: Running() is closed after Close() of a router that was never run, handler #%d never subscribed", k)
					}
				}
			default:
			}
			// ... and a Run that comes after that Close still ends: at once, or at the latest when its context is cancelled
			rctx, rcancel := context.WithCancel(context.Background())
			defer rcancel()
			lateRun := make(chan error, 1)
			go func() { lateRun <- router.Run(rctx) }()
			time.Sleep(2 * time.Millisecond)
			rcancel()
			select {
			case <-lateRun:
			case <-time.After(lib.Live):
				t.Fatalf("violation: Run() called after Close() did not return within %v after its context was cancelled", lib.Live)
			}
			lib.Case(fmt.Sprintf("startup|%s|%d", action, n), true, "startup-interference", action)
			return
		}
		ctx, cancel := context.WithCancel(context.Background())
		defer cancel()
		runRet := make(chan error, 1)
		achieved := true
		var park *lib.Parked
		if action == "cancel-before-run" {
			cancel()
		} else {
			park = ctl.Park("router.runhandlers.started", nil, skip)
		}
		go func() { runRet <- router.Run(ctx) }()
		if park != nil {
			achieved = park.WaitReached(200 * time.Millisecond)
			if !achieved {
				// start-up got past the point already: the first Run has certainly begun once Running() is closed
				select {
				case <-router.Running():
				case <-time.After(lib.Live):
					t.Fatalf("harness: router did not start")
				}
			}
		}
		switch action {
		case "second-run-during-startup":
			second := make(chan error, 1)
			go func() {
				defer func() {
					if r := recover(); r != nil {
						second <- nil
					}
				}()
				second <- router.Run(context.Background())
			}()
			select {
			case err := <-second:
				if err == nil {
					t.Fatalf("violation: a second Run (first one still starting: %v) returned nil or panicked instead of an error", achieved)
				}
			case <-time.After(lib.Live):
				t.Fatalf("violation: a second Run (first one still starting: %v) did not return an error within %v", achieved, lib.Live)
			}
			park.Release()
			cancel()
		case "cancel-during-startup":
			cancel()
			time.Sleep(time.Duration(rapid.IntRange(0, 3).Draw(t, "releaseDelayMs")) * time.Millisecond)
			park.Release()
		}
		// the Run context has ended in every variant by now: the router closes itself and Run returns nil
		select {
		case err := <-runRet:
			if err != nil {
				t.Fatalf("violation: Run returned %v after its context was cancelled (%s), want nil", err, action)
			}
		case <-time.After(lib.Live):
			router.Close()
			t.Fatalf("violation: Run did not return within %v after its context was cancelled (%s)", lib.Live, action)
		}
		if !router.IsClosed() {
			t.Fatalf("violation: Run returned after its context was cancelled (%s) but the router is not closed", action)
		}
		lib.Case(fmt.Sprintf("startup|%s|%d|%d", action, n, skip), achieved, "startup-interference", action, fmt.Sprintf("achieved=%v", achieved))
		if achieved {
			lib.Sample(map[string]any{"test": "StartupInterference", "action": action, "handlers": n, "after_starts": skip + 1})
		}
	})
}

// lateStartFlows: two call sequences around handlers that are started late.
func lateStartFlows(t *rapid.T, router *message.Router, action string) {
	ctx, cancel := context.WithCancel(context.Background())
	defer cancel()
	runRet := make(chan error, 1)
	expectRunReturn := func(why string) {
		select {
		case err := <-runRet:
			if err != nil {
				t.Fatalf("violation: Run returned %v after %s, want nil", err, why)
			}
		case <-time.After(lib.Live):
			router.Close()
			t.Fatalf("violation: Run did not return within %v after %s", lib.Live, why)
		}
	}
	handled := func(sub *lib.ScriptSub, what string) {
		if !sub.WaitSubs(1, lib.Live) {
			t.Fatalf("violation: %s has no subscription", what)
		}
		d, ok := sub.Subs()[len(sub.Subs())-1].Emit(message.NewMessage("m", nil), "", 0, lib.Live)
		if !ok {
			t.Fatalf("violation: %s does not take messages any more", what)
		}
		if acked, settled := d.Wait(lib.Live); !settled || !acked {
			t.Fatalf("violation: message of %s not acked (settled=%v)", what, settled)
		}
	}
	nop := func(*message.Message) error { return nil }
	switch action {
	case "subscribe-fails-then-retried":
		// a handler whose first Subscribe fails and whose second one works is, from then on, a handler like any other:
		// the router lives as long as it lives, and ends when it ends
		subA, subB := lib.NewScriptSub(""), lib.NewScriptSub("")
		hA := router.AddNoPublisherHandler("a", "t", subA, nop)
		go func() { runRet <- router.Run(ctx) }()
		select {
		case <-router.Running():
		case <-time.After(lib.Live):
			t.Fatalf("harness: router did not start")
		}
		var subscribeCalls atomic.Int64
		subB.SubscribeErr = func(int, string) error {
			if subscribeCalls.Add(1) == 1 {
				return stderrors.New("topic not there yet")
			}
			return nil
		}
		hB := router.AddNoPublisherHandler("b", "t", subB, nop)
		if err := router.RunHandlers(ctx); err == nil {
			t.Fatalf("violation: RunHandlers returned nil although a Subscribe failed")
		}
		if err := router.RunHandlers(ctx); err != nil {
			t.Fatalf("violation: the repeated RunHandlers failed although every Subscribe works now: %v", err)
		}
		select {
		case <-hB.Started():
		case <-time.After(lib.Live):
			t.Fatalf("violation: handler b was not started by the repeated RunHandlers")
		}
		hA.Stop()
		select {
		case <-hA.Stopped():
		case <-time.After(lib.Live):
			t.Fatalf("violation: Stopped() of handler a not closed")
		}
		time.Sleep(5 * time.Millisecond)
		select {
		case err := <-runRet:
			t.Fatalf("violation: Run returned (%v) although handler b is still running (only handler a was stopped)", err)
		default:
		}
		handled(subB, "handler b (started by the repeated RunHandlers), after handler a was stopped")
		hB.Stop()
		expectRunReturn("the last handler was stopped")
	case "cancel-with-no-handlers-then-add":
		// Run on a router without handlers; its context ends; handlers added and started later still count: when the
		// last of them ends the router closes itself
		go func() { runRet <- router.Run(ctx) }()
		select {
		case <-router.Running():
		case <-time.After(lib.Live):
			t.Fatalf("harness: router did not start")
		}
		time.Sleep(time.Duration(rapid.IntRange(0, 2).Draw(t, "delayMs")) * time.Millisecond)
		cancel()
		time.Sleep(time.Duration(rapid.IntRange(0, 2).Draw(t, "delayMs2")) * time.Millisecond)
		sub := lib.NewScriptSub("")
		h := router.AddNoPublisherHandler("late", "t", sub, nop)
		if err := router.RunHandlers(context.Background()); err != nil {
			t.Fatalf("violation: RunHandlers: %v", err)
		}
		select {
		case <-h.Started():
		case <-time.After(lib.Live):
			t.Fatalf("violation: late handler not started")
		}
		h.Stop()
		expectRunReturn("the only handler (added after the Run context had ended) was stopped")
	}
}
