// C12 — Retry middleware: bounded attempts, back-off, first success wins, error kept.
package c12

import (
	"context"
	"fmt"
	"sync"
	"testing"
	"time"

	"github.com/ThreeDotsLabs/watermill"
	"github.com/ThreeDotsLabs/watermill/message"
	"github.com/ThreeDotsLabs/watermill/message/router/middleware"
	"github.com/ThreeDotsLabs/watermill/verifharness/lib"
	"pgregory.net/rapid"
)

func TestMain(m *testing.M) {
	lib.Extra("rule", "rapid-generated Retry configurations (MaxRetries 1..8, InitialInterval 0..3 ms, real Multiplier 1..3, MaxInterval >= Initial up to +7 ms, RandomizationFactor 0..1, hook/logger on or off) "+
		"x handler outcome scripts (fail^i then succeed, or fail forever; distinct error and outputs per attempt) in three modes: plain, message context cancelled by the handler during attempt j, MaxElapsedTime. "+
		"Oracle = model of call count, returned outputs/error identity, hook numbering, hook delay within the configured back-off band, measured gap >= reported delay (lower bound only). "+
		"Non-trivial: at least one retry happened (>=2 handler calls) or an early give-up was exercised. Distinct by canonical case encoding."+
		" OnRetryHook is counted in every mode: once per failed retry (or once per retry), also when the context ended during a retry.")
	lib.Extra("assumptions", []string{
		"wall-clock is used only for lower bounds (a timer never fires early) and for a generous upper bound of MaxElapsedTime+250 ms on the start of any attempt",
		"in the ctx-cancel mode the interval is 300 ms with RandomizationFactor <= 0.5 so that the cancelled context and the back-off timer are never ready at the same instant",
		"behaviour for MaxRetries <= 0 or InitialInterval > MaxInterval is not demanded",
	})
	lib.Main(m)
}

type caseT struct {
	MaxRetries  int
	InitialUs   int
	Mult        float64
	ExtraMaxUs  int
	RF          float64
	Hook        bool
	Logger      bool
	Fails       int // number of leading failures; -1 = forever
	Mode        int // 0 plain, 1 ctx cancel at attempt CancelAt, 2 MaxElapsed short (give up before first retry), 3 MaxElapsed loose
	CancelAt    int
	ElapsedMs   int
	SlowUs      int  // handler duration in microseconds (MaxElapsedTime mode: attempts may straddle the deadline)
	CtxDeadline bool // the message context already carries a (far) deadline of its own
	ErrKind     int  // 0 plain error, 1 wraps context.Canceled, 2 wraps context.DeadlineExceeded (the message context itself is alive)
}

type plainCase caseT

func (c caseT) String() string { return fmt.Sprintf("%+v", plainCase(c)) }

type attempt struct {
	start, end time.Time
	err        error
	outs       []*message.Message
}

type hookCall struct {
	n     int
	delay time.Duration
}

func TestRetryModel(t *testing.T) {
	rapid.Check(t, func(t *rapid.T) {
		c := caseT{
			MaxRetries: rapid.IntRange(1, 8).Draw(t, "maxRetries"),
			InitialUs:  rapid.IntRange(0, 3000).Draw(t, "initialIntervalUs"),
			Mult:       rapid.Float64Range(1, 3).Draw(t, "multiplier"),
			ExtraMaxUs: rapid.IntRange(0, 7000).Draw(t, "maxIntervalExtraUs"),
			RF:         rapid.Float64Range(0, 1).Draw(t, "randomizationFactor"),
			Hook:       rapid.IntRange(0, 3).Draw(t, "hook") > 0,
			Logger:     rapid.Bool().Draw(t, "logger"),
			Mode:       rapid.SampledFrom([]int{0, 0, 0, 0, 1, 2, 3}).Draw(t, "mode"),
		}
		if rapid.IntRange(0, 3).Draw(t, "failForever") == 0 {
			c.Fails = -1
		} else {
			c.Fails = rapid.IntRange(0, c.MaxRetries+2).Draw(t, "failuresBeforeSuccess")
		}
		initial := time.Duration(c.InitialUs) * time.Microsecond
		maxInt := initial + time.Duration(c.ExtraMaxUs)*time.Microsecond
		r := middleware.Retry{MaxRetries: c.MaxRetries, InitialInterval: initial, MaxInterval: maxInt, Multiplier: c.Mult, RandomizationFactor: c.RF}
		switch c.Mode {
		case 1:
			// the handler cancels the message context during attempt CancelAt: no further attempt may follow,
			// whatever the intervals are (also with a zero interval, where the back-off timer is ready at once)
			if rapid.Bool().Draw(t, "longIntervalAfterCancel") {
				r.InitialInterval, r.MaxInterval = 300*time.Millisecond, 300*time.Millisecond+time.Duration(c.ExtraMaxUs)*time.Microsecond
				if c.RF > 0.5 {
					c.RF /= 2
					r.RandomizationFactor = c.RF
				}
			}
			// a (far away) MaxElapsedTime may be configured as well: the message context ends the retries all the same
			if rapid.Bool().Draw(t, "maxElapsedTimeSetToo") {
				r.MaxElapsedTime = time.Hour
			}
			planned := c.MaxRetries + 1
			if c.Fails >= 0 && c.Fails < planned {
				planned = c.Fails // cancel only happens in a failing attempt
			}
			if planned < 1 {
				c.Mode = 0
				r.MaxElapsedTime = 0
				r.InitialInterval, r.MaxInterval = initial, maxInt
			} else {
				c.CancelAt = rapid.IntRange(1, planned).Draw(t, "cancelAtAttempt")
				if c.CancelAt > 1 && r.InitialInterval >= 300*time.Millisecond {
					// a retry before the cancel waits the full back-off: keep these cases cheap
					c.CancelAt = 1 + (c.CancelAt-1)%2
				}
			}
		case 2:
			c.ElapsedMs = rapid.IntRange(2, 20).Draw(t, "maxElapsedMs")
			r.InitialInterval, r.MaxInterval = 400*time.Millisecond, 400*time.Millisecond
			if c.RF > 0.5 {
				c.RF /= 2
				r.RandomizationFactor = c.RF
			}
			r.MaxElapsedTime = time.Duration(c.ElapsedMs) * time.Millisecond
			if c.Fails == 0 {
				c.Fails = -1
			}
		case 3:
			c.ElapsedMs = rapid.IntRange(2, 15).Draw(t, "maxElapsedMs")
			r.MaxElapsedTime = time.Duration(c.ElapsedMs) * time.Millisecond
			c.SlowUs = rapid.SampledFrom([]int{0, 0, 500, 2000, 4000}).Draw(t, "handlerDurationUs")
		}
		var hooks []hookCall
		if c.Hook {
			r.OnRetryHook = func(n int, d time.Duration) { hooks = append(hooks, hookCall{n, d}) }
		}
		if c.Logger {
			r.Logger = watermill.NopLogger{}
		}
		c.CtxDeadline = rapid.IntRange(0, 2).Draw(t, "messageContextHasDeadline") == 0
		c.ErrKind = rapid.SampledFrom([]int{0, 0, 1, 2}).Draw(t, "handlerErrorKind")
		base := context.Background()
		if c.CtxDeadline {
			var cancelDeadline context.CancelFunc
			base, cancelDeadline = context.WithTimeout(base, time.Hour)
			defer cancelDeadline()
		}
		msgCtx, cancel := context.WithCancel(base)
		defer cancel()
		msg := message.NewMessage("u", []byte("p"))
		msg.SetContext(msgCtx)
		var atts []*attempt
		h := func(m *message.Message) ([]*message.Message, error) {
			a := &attempt{start: time.Now()}
			atts = append(atts, a)
			n := len(atts)
			if m != msg {
				t.Fatalf("violation: handler called with a different message object")
			}
			k := rapid.IntRange(0, 2).Draw(t, "outputs")
			for i := 0; i < k; i++ {
				a.outs = append(a.outs, message.NewMessage(fmt.Sprintf("a%d-o%d", n, i), nil))
			}
			if c.Fails < 0 || n <= c.Fails {
				switch c.ErrKind {
				case 1:
					// e.g. a downstream call that was cancelled under its own context: still an ordinary failure
					a.err = fmt.Errorf("failure of attempt %d: %w", n, context.Canceled)
				case 2:
					a.err = fmt.Errorf("failure of attempt %d: %w", n, context.DeadlineExceeded)
				default:
					a.err = fmt.Errorf("failure of attempt %d", n)
				}
			}
			if c.Mode == 1 && n == c.CancelAt {
				cancel()
			}
			if c.SlowUs > 0 {
				time.Sleep(time.Duration(c.SlowUs) * time.Microsecond)
			}
			a.end = time.Now()
			return a.outs, a.err
		}
		t0 := time.Now()
		outs, err := r.Middleware(h)(msg)
		total := time.Since(t0)
		calls := len(atts)
		if calls == 0 {
			t.Fatalf("violation: handler never called")
		}
		last := atts[calls-1]
		// universal laws
		if calls > c.MaxRetries+1 {
			t.Fatalf("violation: %d handler calls with MaxRetries=%d (at most %d allowed)", calls, c.MaxRetries, c.MaxRetries+1)
		}
		for i, a := range atts[:calls-1] {
			if a.err == nil {
				t.Fatalf("violation: handler re-invoked after the successful attempt %d", i+1)
			}
		}
		if last.err == nil {
			if err != nil {
				t.Fatalf("violation: last attempt succeeded but Retry returned error %v", err)
			}
			if !sameMsgs(outs, last.outs) {
				t.Fatalf("violation: Retry did not return the outputs of the successful attempt")
			}
		} else {
			if err == nil {
				t.Fatalf("violation: every attempt failed but Retry returned success (failure turned into success)")
			}
			if err != last.err {
				t.Fatalf("violation: Retry returned error %q, the last attempt's error is %q", err, last.err)
			}
		}
		if c.Hook {
			for i, hc := range hooks {
				if hc.n != i+1 {
					t.Fatalf("violation: OnRetryHook numbers %v are not 1,2,... in order", hooks)
				}
			}
		}
		retries := calls - 1
		if c.Hook && len(hooks) > retries {
			t.Fatalf("violation: OnRetryHook reported retries %v but only %d retries were made (a retry that never ran was reported) (%s)", hooks, retries, c)
		}
		failedRetries := retries
		if last.err == nil && retries > 0 {
			failedRetries--
		}
		// every retry that was made is reported, however the sequence ends (exhausted, context ended during a retry, MaxElapsedTime):
		// once per failed retry, or once per retry for an implementation that reports before the attempt
		if c.Hook && len(hooks) != failedRetries && len(hooks) != retries {
			t.Fatalf("violation: OnRetryHook called %d times (%v) for %d retries (%d failed) (%s)", len(hooks), hooks, retries, failedRetries, c)
		}
		switch c.Mode {
		case 0:
			want := c.MaxRetries + 1
			if c.Fails >= 0 && c.Fails < want {
				want = c.Fails + 1
			}
			if calls != want {
				t.Fatalf("violation: %d handler calls, model says %d (%s)", calls, want, c)
			}
			if c.Hook && len(hooks) != failedRetries && len(hooks) != retries {
				t.Fatalf("violation: OnRetryHook called %d times for %d retries (%d failed)", len(hooks), retries, failedRetries)
			}
			// back-off band and measured gaps
			iv := float64(r.InitialInterval)
			for k := 1; k <= retries; k++ {
				lo := time.Duration(iv*(1-c.RF)) - time.Microsecond
				hi := time.Duration(iv*(1+c.RF)) + time.Microsecond
				gap := atts[k].start.Sub(atts[k-1].end)
				if gap < lo-100*time.Microsecond {
					t.Fatalf("violation: retry %d started %v after the previous attempt, configured back-off is at least %v (%s)", k, gap, lo, c)
				}
				if c.Hook && k-1 < len(hooks) {
					d := hooks[k-1].delay
					if d < lo || d > hi {
						t.Fatalf("violation: OnRetryHook delay for retry %d is %v, configured band is [%v, %v] (%s)", k, d, lo, hi, c)
					}
					if gap < d-100*time.Microsecond {
						t.Fatalf("violation: retry %d started %v after the previous attempt although the reported delay is %v", k, gap, d)
					}
				}
				iv *= c.Mult
				if iv > float64(r.MaxInterval) {
					iv = float64(r.MaxInterval)
				}
			}
		case 1:
			if calls != c.CancelAt {
				t.Fatalf("violation: message context cancelled during attempt %d but %d attempts were made (%s)", c.CancelAt, calls, c)
			}
		case 2:
			if calls != 1 {
				t.Fatalf("violation: MaxElapsedTime=%dms passed long before the first retry (interval 400ms) but %d attempts were made", c.ElapsedMs, calls)
			}
			if total > 300*time.Millisecond {
				lib.Count("maxelapsed_slow_return", 1)
			}
		case 3:
			limit := time.Duration(c.ElapsedMs)*time.Millisecond + 250*time.Millisecond
			for i, a := range atts {
				if a.start.Sub(atts[0].end) > limit {
					t.Fatalf("violation: attempt %d started %v after the first failure, MaxElapsedTime is %dms", i+1, a.start.Sub(atts[0].end), c.ElapsedMs)
				}
			}
			// every retry that is made waits at least its back-off, also around the MaxElapsedTime deadline
			iv := float64(r.InitialInterval)
			for k := 1; k <= retries; k++ {
				lo := time.Duration(iv*(1-c.RF)) - time.Microsecond
				if gap := atts[k].start.Sub(atts[k-1].end); gap < lo-100*time.Microsecond {
					t.Fatalf("violation: retry %d started %v after the previous attempt, configured back-off is at least %v (MaxElapsedTime %dms, handler takes %dus) (%s)", k, gap, lo, c.ElapsedMs, c.SlowUs, c)
				}
				iv *= c.Mult
				if iv > float64(r.MaxInterval) {
					iv = float64(r.MaxInterval)
				}
			}
		}
		nontrivial := calls >= 2 || c.Mode == 1 || c.Mode == 2
		lib.Case(c.String(), nontrivial, fmt.Sprintf("mode%d", c.Mode), fmt.Sprintf("calls=%d", calls))
		if nontrivial {
			lib.Sample(map[string]any{"test": "RetryModel", "case": c.String(), "calls": calls, "hooks": fmt.Sprint(hooks), "returned_error": fmt.Sprint(err)})
		}
	})
}

func sameMsgs(a, b []*message.Message) bool {
	if len(a) != len(b) {
		return false
	}
	for i := range a {
		if a[i] != b[i] {
			return false
		}
	}
	return true
}

// One middleware instance serves every message of a handler; messages are handled concurrently.
// Each message must get its own attempt budget and its own back-off sequence.
func TestRetryConcurrentMessages(t *testing.T) {
	rapid.Check(t, func(t *rapid.T) {
		k := rapid.IntRange(2, 4).Draw(t, "messages")
		maxRetries := rapid.IntRange(2, 5).Draw(t, "maxRetries")
		initial := time.Duration(rapid.IntRange(1000, 3000).Draw(t, "initialUs")) * time.Microsecond
		mult := rapid.Float64Range(1.5, 2.5).Draw(t, "multiplier")
		rf := rapid.Float64Range(0, 0.3).Draw(t, "rf")
		r := middleware.Retry{MaxRetries: maxRetries, InitialInterval: initial, MaxInterval: time.Second, Multiplier: mult, RandomizationFactor: rf}
		type perMsg struct {
			fails  int
			offset time.Duration
			atts   []*attempt
			outs   []*message.Message
			err    error
		}
		ms := make([]*perMsg, k)
		canon := fmt.Sprintf("conc|%d|%d|%v|%.3f|%.3f|", k, maxRetries, initial, mult, rf)
		for i := range ms {
			ms[i] = &perMsg{fails: rapid.IntRange(1, maxRetries+1).Draw(t, "failures"),
				offset: time.Duration(rapid.IntRange(0, 12000).Draw(t, "startOffsetUs")) * time.Microsecond}
			canon += fmt.Sprintf("%d@%v;", ms[i].fails, ms[i].offset)
		}
		var mu sync.Mutex
		h := r.Middleware(func(m *message.Message) ([]*message.Message, error) {
			var idx int
			fmt.Sscanf(m.UUID, "m%d", &idx)
			a := &attempt{start: time.Now()}
			mu.Lock()
			p := ms[idx]
			p.atts = append(p.atts, a)
			n := len(p.atts)
			mu.Unlock()
			if n <= p.fails {
				a.err = fmt.Errorf("message %d attempt %d failed", idx, n)
			}
			a.end = time.Now()
			return nil, a.err
		})
		var wg sync.WaitGroup
		for i := range ms {
			wg.Add(1)
			go func(i int) {
				defer wg.Done()
				time.Sleep(ms[i].offset)
				ms[i].outs, ms[i].err = h(message.NewMessage(fmt.Sprintf("m%d", i), nil))
			}(i)
		}
		wg.Wait()
		overlap := false
		for i, p := range ms {
			want := maxRetries + 1
			if p.fails < want {
				want = p.fails + 1
			}
			if len(p.atts) != want {
				t.Fatalf("violation: message %d got %d attempts, model says %d (fails=%d, MaxRetries=%d) with %d messages sharing the middleware", i, len(p.atts), want, p.fails, maxRetries, k)
			}
			last := p.atts[len(p.atts)-1]
			if (last.err == nil) != (p.err == nil) || (last.err != nil && p.err != last.err) {
				t.Fatalf("violation: message %d: returned error %v, its last attempt's error is %v", i, p.err, last.err)
			}
			iv := float64(initial)
			for n := 1; n < len(p.atts); n++ {
				lo := time.Duration(iv*(1-rf)) - time.Microsecond
				gap := p.atts[n].start.Sub(p.atts[n-1].end)
				if gap < lo-100*time.Microsecond {
					t.Fatalf("violation: message %d retry %d started %v after its previous attempt; its own back-off is at least %v (other messages retry concurrently through the same middleware)", i, n, gap, lo)
				}
				iv *= mult
			}
			for j, q := range ms {
				if j != i && len(q.atts) > 0 && len(p.atts) > 1 && q.atts[0].start.After(p.atts[0].end) && q.atts[0].start.Before(p.atts[len(p.atts)-1].start) {
					overlap = true
				}
			}
		}
		lib.Case(canon, overlap, "concurrent-messages")
		if overlap {
			lib.Sample(map[string]any{"test": "RetryConcurrentMessages", "case": canon})
		}
	})
}
