// C14 — Deduplicator lets exactly one message per key through per window.
package c14

import (
	"bytes"
	"context"
	"crypto/sha256"
	"encoding/binary"
	"errors"
	"fmt"
	"hash/adler32"
	"math"
	"runtime"
	"strings"
	"sync"
	"sync/atomic"
	"testing"
	"time"

	"github.com/ThreeDotsLabs/watermill/message"
	"github.com/ThreeDotsLabs/watermill/message/router/middleware"
	"github.com/ThreeDotsLabs/watermill/verifharness/lib"
	"pgregory.net/rapid"
)

func TestMain(m *testing.M) {
	lib.Extra("rule", "rapid-generated multisets of messages (payload lengths around 0/63/64/65/127/128/4096, pairs sharing a prefix up to the read limit or differing inside it) presented by 1..32 goroutines behind a barrier "+
		"to Deduplicator.Middleware and to the PublisherDecorator, hashers Adler32/SHA256 with read limits {<64, 64, 100, MaxInt64} and the metadata-field hasher; key classes are computed by an independent reference hash. "+
		"Oracle: per key class exactly one presentation reaches the handler / inner publisher, all others are dropped as successes (acked) without invoking it; different keys never suppress each other; "+
		"retention: a re-presentation that ends before first start + window is a duplicate, and the key is accepted again after expiry (bounded wait); hasher laws against the reference hash. "+
		"Non-trivial: a key class is presented by >=2 goroutines concurrently, or the case exercises expiry. Distinct by canonical case encoding."+
		" Presentations may share UUIDs from a pool of 1..2 (the UUID is no part of any key).")
	lib.Extra("assumptions", []string{
		"Adler-32 collisions are documented: classes are formed by the reference Adler-32 of the limited payload, not by payload equality",
		"repositories cannot be stopped (one ticker goroutine each): concurrency cases use one long-window repository per case (parked ticker), expiry cases are capped per process",
		"wall-clock: retention is asserted only for re-presentations that finished before first.start + window (conservative), re-acceptance within a 10 s bound",
	})
	lib.Main(m)
}

var lengths = []int{0, 1, 63, 64, 65, 100, 127, 128, 300, 4096}

type hasherSpec struct {
	Kind  string // adler, sha, meta
	Limit int64
}

func (h hasherSpec) build() middleware.MessageHasher {
	switch h.Kind {
	case "adler":
		return middleware.NewMessageHasherAdler32(h.Limit)
	case "sha":
		return middleware.NewMessageHasherSHA256(h.Limit)
	}
	return middleware.NewMessageHasherFromMetadataField("dedup-key")
}

func effLimit(l int64) int64 {
	if l < middleware.MessageHasherReadLimitMinimum {
		return middleware.MessageHasherReadLimitMinimum
	}
	return l
}

// refKey is the independent reference of the key.
func (h hasherSpec) refKey(m *message.Message) string {
	if h.Kind == "meta" {
		return m.Metadata.Get("dedup-key")
	}
	p := []byte(m.Payload)
	if l := effLimit(h.Limit); int64(len(p)) > l {
		p = p[:l]
	}
	if h.Kind == "adler" {
		var b [4]byte
		binary.BigEndian.PutUint32(b[:], adler32.Checksum(p))
		return string(b[:])
	}
	s := sha256.Sum256(p)
	return string(s[:])
}

func genHasher(t *rapid.T) hasherSpec {
	return hasherSpec{
		Kind:  rapid.SampledFrom([]string{"adler", "sha", "sha", "meta"}).Draw(t, "hasher"),
		Limit: rapid.SampledFrom([]int64{0, 10, 64, 100, math.MaxInt64}).Draw(t, "readLimit"),
	}
}

var errHandlerFails = errors.New("handler failed")

var caseCounter atomic.Int64

// genPayloads builds payloads with a per-case unique prefix (inside the first 24 bytes, so inside every read limit).
func genPayloads(t *rapid.T, n int, prefix string) [][]byte {
	var out [][]byte
	for i := 0; i < n; i++ {
		mode := rapid.IntRange(0, 3).Draw(t, "payloadMode")
		if i > 0 && mode >= 1 {
			base := out[rapid.IntRange(0, i-1).Draw(t, "basedOn")]
			p := append([]byte(nil), base...)
			switch mode {
			case 1: // identical
			case 2: // differs only beyond some position (may be beyond the read limit)
				pos := rapid.SampledFrom([]int{30, 63, 64, 65, 99, 100, 101, 200}).Draw(t, "diffPos")
				for len(p) <= pos {
					p = append(p, 'x')
				}
				p[pos] ^= 0x55
			case 3: // extended
				p = append(p, bytes.Repeat([]byte{'y'}, rapid.SampledFrom([]int{1, 40, 100}).Draw(t, "ext"))...)
			}
			out = append(out, p)
			continue
		}
		l := rapid.SampledFrom(lengths).Draw(t, "len")
		p := []byte(prefix)
		body := rapid.SliceOfN(rapid.Byte(), 0, 8).Draw(t, "body")
		p = append(p, body...)
		for len(p) < l {
			p = append(p, byte('a'+len(p)%7))
		}
		out = append(out, p)
	}
	return out
}

func TestConcurrentPresentations(t *testing.T) {
	defer runtime.GOMAXPROCS(runtime.GOMAXPROCS(0))
	rapid.Check(t, func(t *rapid.T) {
		id := caseCounter.Add(1)
		// ten pseudo-random hex digits keep Adler-32 collisions between cases rare (a plain counter differs in too few
		// bytes for that checksum); the rest of the collisions is handled by the repository model below
		prefix := fmt.Sprintf("c%07d%010x|", id, (uint64(id)*0x9E3779B97F4A7C15+uint64(lib.Seed()))>>24)
		hs := genHasher(t)
		viaPublisher := rapid.Bool().Draw(t, "viaPublisherDecorator")
		procs := rapid.SampledFrom([]int{2, 4, 16, 16}).Draw(t, "gomaxprocs")
		runtime.GOMAXPROCS(procs)
		nPayloads := rapid.IntRange(1, 4).Draw(t, "distinctPayloads")
		payloads := genPayloads(t, nPayloads, prefix)
		ng := rapid.IntRange(1, 32).Draw(t, "goroutines")
		rounds := rapid.IntRange(1, 8).Draw(t, "rounds")
		// Repository model. Every repository leaks its ticker goroutine for the rest of the process (no stop API),
		// which under the race detector costs >100 kB each, so the explicit configurations share ONE long-window
		// repository per process. Keys are short (Adler-32: 4 bytes) and collide across cases as documented, so the
		// oracle is model-based: `known` is the set of keys the repository in use has been given so far; a key
		// class passes exactly once if its key is not yet known and not at all if it is.
		d := &middleware.Deduplicator{KeyFactory: hs.build(), Repository: sharedRepo(t), Timeout: time.Second}
		known := sharedKnown
		freshPerRound := false
		// documented defaults: nil Deduplicator / unset fields = Adler-32 over the whole payload, in-memory repository
		switch rapid.SampledFrom(configurations).Draw(t, "configuration") {
		case "nil": // every Middleware/PublisherDecorator call builds its own default repository
			d = nil
			hs = hasherSpec{Kind: "adler", Limit: math.MaxInt64}
			freshPerRound = true
			if rounds > 2 {
				rounds = 2
			}
		case "zero": // the first call fills in the defaults, the repository then lives as long as the value
			d = &middleware.Deduplicator{}
			hs = hasherSpec{Kind: "adler", Limit: math.MaxInt64}
			known = map[string]bool{}
		case "no-timeout":
			d.Timeout = 0
		}

		handlerFails := !viaPublisher && rapid.IntRange(0, 3).Draw(t, "handlerReturnsAnError") == 0
		concurrentDup := false
		for r := 0; r < rounds; r++ {
			rprefix := fmt.Sprintf("%sr%d|", prefix, r)
			if freshPerRound {
				known = map[string]bool{}
			}
			// each goroutine presents one message
			msgs := make([]*message.Message, ng)
			who := map[*message.Message]int{}
			classes := map[string][]int{}
			// the message UUID is no part of any key: presentations may share one (copies of one message, redeliveries, a
			// producer with a small id space) or have none
			uuidPool := rapid.SampledFrom([]int{0, 0, 1, 2}).Draw(t, "presentationsShareUUIDsFromAPoolOf")
			for g := 0; g < ng; g++ {
				p := payloads[rapid.IntRange(0, nPayloads-1).Draw(t, "payloadOf")]
				body := append([]byte(rprefix), p...)
				uuid := fmt.Sprintf("g%d", g)
				if uuidPool > 0 {
					uuid = []string{"shared-uuid-a", "shared-uuid-b"}[rapid.IntRange(0, uuidPool-1).Draw(t, "uuidOf")]
				}
				m := message.NewMessage(uuid, body)
				who[m] = g
				if hs.Kind == "meta" {
					if mk := rapid.IntRange(0, 3).Draw(t, "metaKey"); mk == 3 {
						m.Metadata["dedup-key"] = "" // present and empty: the key is the empty string, a key like any other
					} else {
						m.Metadata["dedup-key"] = rprefix + fmt.Sprint(mk)
					}
				}
				msgs[g] = m
				k := hs.refKey(m)
				classes[k] = append(classes[k], g)
			}
			for _, gs := range classes {
				if len(gs) >= 2 {
					concurrentDup = true
				}
			}
			// extra messages for publisher batches: unique keys (must all pass) and a duplicate of the goroutine's own message
			extras := make([][]*message.Message, ng)
			if viaPublisher {
				for g := 0; g < ng; g++ {
					n := rapid.IntRange(0, 2).Draw(t, "extraInBatch")
					for k := 0; k < n; k++ {
						if rapid.Bool().Draw(t, "extraIsDuplicateOfOwn") {
							ex := message.NewMessage(fmt.Sprintf("dup-g%d-%d", g, k), append([]byte(nil), msgs[g].Payload...))
							for mk, mv := range msgs[g].Metadata {
								ex.Metadata[mk] = mv
							}
							extras[g] = append(extras[g], ex)
						} else {
							id := fmt.Sprintf("uniq-r%d-g%d-%d", r, g, k)
							ex := message.NewMessage(id, []byte(rprefix+"unique-extra-"+id))
							if hs.Kind == "meta" {
								ex.Metadata["dedup-key"] = rprefix + "unique-extra-" + id
							}
							extras[g] = append(extras[g], ex)
						}
					}
				}
			}
			var mu sync.Mutex
			passed := map[int]bool{} // goroutine index whose message reached the handler / inner publisher
			results := make([]string, ng)
			inner := lib.NewScriptPub("")
			var pub message.Publisher
			var h message.HandlerFunc
			if viaPublisher {
				var err error
				pub, err = d.PublisherDecorator()(inner)
				if err != nil {
					t.Fatalf("PublisherDecorator: %v", err)
				}
			} else {
				h = d.Middleware(func(m *message.Message) ([]*message.Message, error) {
					g, ok := who[m]
					if !ok {
						fmt.Sscanf(m.UUID, "g%d", &g)
					}
					mu.Lock()
					passed[g] = true
					mu.Unlock()
					if handlerFails {
						// the handler got the message and failed: still the one presentation of that key in this window
						return nil, errHandlerFails
					}
					return []*message.Message{m}, nil
				})
			}
			start := make(chan struct{})
			var wg sync.WaitGroup
			for g := 0; g < ng; g++ {
				wg.Add(1)
				go func(g int) {
					defer wg.Done()
					<-start
					if viaPublisher {
						// batches: the goroutine's own message travels with other messages of the same call
						batch := []*message.Message{msgs[g]}
						for k, ex := range extras[g] {
							if k%2 == 0 {
								batch = append([]*message.Message{ex}, batch...)
							} else {
								batch = append(batch, ex)
							}
						}
						if err := pub.Publish("topic", batch...); err != nil {
							results[g] = "error: " + err.Error()
						}
						return
					}
					outs, err := h(msgs[g])
					switch {
					case err != nil:
						results[g] = "error: " + err.Error()
					case len(outs) == 1:
						results[g] = "handled"
					case outs == nil:
						results[g] = "dropped"
					default:
						results[g] = fmt.Sprintf("odd: %d outputs", len(outs))
					}
				}(g)
			}
			close(start)
			wg.Wait()
			// every presented message (own + batch extras) belongs to a key class computed by the reference hash;
			// unique-looking extras may collide under Adler-32 as well, so they are classified the same way
			extraPassed := map[string]bool{}
			if viaPublisher {
				for _, pc := range inner.Calls() {
					for _, m := range pc.Msgs {
						if strings.HasPrefix(m.UUID, "uniq-") || strings.HasPrefix(m.UUID, "dup-g") {
							if extraPassed[m.UUID] {
								t.Fatalf("violation: message %s reached the wrapped publisher twice", m.UUID)
							}
							extraPassed[m.UUID] = true
							continue
						}
						g, ok := who[m]
						if !ok {
							fmt.Sscanf(m.UUID, "g%d", &g)
						}
						if passed[g] {
							t.Fatalf("violation: the message presented by goroutine %d reached the wrapped publisher twice", g)
						}
						passed[g] = true
					}
				}
			}
			extraByClass := map[string][]*message.Message{}
			for g := range extras {
				for _, ex := range extras[g] {
					k := hs.refKey(ex)
					extraByClass[k] = append(extraByClass[k], ex)
					if _, ok := classes[k]; !ok {
						classes[k] = nil
					}
				}
			}
			// the repository has been given every key of this round by now, whatever the verdict below is
			wasKnown := map[string]bool{}
			for k := range classes {
				wasKnown[k] = known[k]
				known[k] = true
			}
			for k, gs := range classes {
				n := 0
				for _, g := range gs {
					if handlerFails && passed[g] && results[g] == "error: "+errHandlerFails.Error() {
						// the handler's own error comes back unchanged
					} else if results[g] != "" && results[g] != "handled" && results[g] != "dropped" {
						t.Fatalf("violation: presentation of goroutine %d ended with %s", g, results[g])
					}
					if passed[g] {
						n++
						continue
					}
					// dropped: must look like a success
					if viaPublisher {
						if a, _ := lib.Settled(msgs[g]); !a {
							t.Fatalf("violation: duplicate dropped by the publisher decorator was not acked")
						}
					} else if results[g] != "dropped" {
						t.Fatalf("violation: duplicate not dropped as success: %s", results[g])
					}
				}
				for _, ex := range extraByClass[k] {
					if extraPassed[ex.UUID] {
						n++
					} else if a, _ := lib.Settled(ex); !a {
						t.Fatalf("violation: duplicate dropped by the publisher decorator was not acked")
					}
				}
				want := 1
				if wasKnown[k] {
					want = 0 // the key collides with one the repository already holds (earlier round or case)
					lib.Count("class-key-already-known", 1)
					lib.Count("class-key-already-known|"+hs.Kind, 1)
				}
				if n != want {
					t.Fatalf("violation: key class %x presented by %d goroutines concurrently (+%d batch extras): %d reached the %s, want exactly %d (hasher %s limit %d, payload lengths %v)\n%s",
						k, len(gs), len(extraByClass[k]), n, map[bool]string{true: "wrapped publisher", false: "handler"}[viaPublisher], want, hs.Kind, hs.Limit, lens(msgs, gs),
						classDiagnostics(d, hs, msgs, gs, results, passed))
				}
			}
		}
		lib.Case(fmt.Sprintf("conc|%s|%d|%v|%d|%d|%d|%v", hs.Kind, hs.Limit, viaPublisher, nPayloads, ng, rounds, lensAll(payloads)), concurrentDup, "concurrent", "hasher:"+hs.Kind)
		if concurrentDup {
			lib.Sample(map[string]any{"test": "ConcurrentPresentations", "hasher": hs.Kind, "read_limit": hs.Limit, "via_publisher": viaPublisher, "goroutines": ng, "rounds": rounds, "payload_lengths": lensAll(payloads)})
		}
	})
}

// configurations: the default ones build a repository (= one leaked goroutine) per case or per round, so they are drawn less often
var configurations = []string{"explicit", "explicit", "explicit", "explicit", "explicit", "explicit", "explicit", "explicit", "explicit", "explicit", "explicit", "explicit", "no-timeout", "no-timeout", "nil", "zero"}

var (
	sharedOnce  sync.Once
	sharedR     middleware.ExpiringKeyRepository
	sharedKnown = map[string]bool{} // only touched by the (sequential) property function
)

func sharedRepo(t *rapid.T) middleware.ExpiringKeyRepository {
	sharedOnce.Do(func() {
		r, err := middleware.NewMapExpiringKeyRepository(48 * time.Hour)
		if err != nil {
			panic(err)
		}
		sharedR = r
	})
	return sharedR
}

// classDiagnostics makes a (schedule-dependent, not replayable) failure decidable from its log: the key the code under
// test computes now for every member of the class, next to what the member experienced.
func classDiagnostics(d *middleware.Deduplicator, hs hasherSpec, msgs []*message.Message, gs []int, results []string, passed map[int]bool) string {
	kf := hs.build()
	if d != nil && d.KeyFactory != nil {
		kf = d.KeyFactory
	}
	var b strings.Builder
	for _, g := range gs {
		key, err := kf(msgs[g])
		sum := sha256.Sum256(msgs[g].Payload)
		fmt.Fprintf(&b, "  g%d uuid=%s key-now=%x (err %v) ref=%x payload-sha=%x len=%d result=%q reached=%v\n",
			g, msgs[g].UUID, key, err, hs.refKey(msgs[g]), sum[:6], len(msgs[g].Payload), results[g], passed[g])
	}
	if d != nil {
		fmt.Fprintf(&b, "  repository=%p timeout=%v", d.Repository, d.Timeout)
	}
	return b.String()
}

func lens(msgs []*message.Message, gs []int) []int {
	var out []int
	for _, g := range gs {
		out = append(out, len(msgs[g].Payload))
	}
	return out
}

func lensAll(ps [][]byte) []int {
	var out []int
	for _, p := range ps {
		out = append(out, len(p))
	}
	return out
}

// ---------- hasher laws ----------

func TestHasherLaws(t *testing.T) {
	rapid.Check(t, func(t *rapid.T) {
		hs := genHasher(t)
		if hs.Kind == "meta" {
			hs.Kind = "sha"
		}
		h := hs.build()
		ps := genPayloads(t, 2, "laws|")
		a, b := message.NewMessage("a", ps[0]), message.NewMessage("b", ps[1])
		ka, err1 := h(a)
		kb, err2 := h(b)
		if err1 != nil || err2 != nil {
			t.Fatalf("violation: hasher failed: %v %v", err1, err2)
		}
		if ka != hs.refKey(a) || kb != hs.refKey(b) {
			t.Fatalf("violation: %s hasher (limit %d) disagrees with hash(payload[:min(len,limit)]) for payload lengths %d/%d", hs.Kind, hs.Limit, len(ps[0]), len(ps[1]))
		}
		l := effLimit(hs.Limit)
		pa, pb := ps[0], ps[1]
		if int64(len(pa)) > l {
			pa = pa[:l]
		}
		if int64(len(pb)) > l {
			pb = pb[:l]
		}
		same := bytes.Equal(pa, pb)
		if same && ka != kb {
			t.Fatalf("violation: payloads equal up to the read limit %d give different keys", l)
		}
		if !same && hs.Kind == "sha" && ka == kb {
			t.Fatalf("violation: SHA-256 hasher gives equal keys for payloads differing inside the read limit %d", l)
		}
		// hashing must not modify the message and must be repeatable
		if k2, _ := h(a); k2 != ka {
			t.Fatalf("violation: hasher is not deterministic")
		}
		lib.Case(fmt.Sprintf("laws|%s|%d|%x|%x", hs.Kind, hs.Limit, ps[0], ps[1]), len(ps[0]) != len(ps[1]) || !bytes.Equal(ps[0], ps[1]), "laws:"+hs.Kind)
		lib.Sample(map[string]any{"test": "HasherLaws", "hasher": hs.Kind, "limit": hs.Limit, "len_a": len(ps[0]), "len_b": len(ps[1]), "equal_up_to_limit": same})
	})
}

// ---------- retention ----------

var expiryCases atomic.Int64

func TestRetentionWindow(t *testing.T) {
	rapid.Check(t, func(t *rapid.T) {
		expiryCases.Add(1) // each case leaks one ticker goroutine (no stop API); the case count per process is bounded by -rapid.checks
		windowMs := rapid.IntRange(20, 60).Draw(t, "windowMs")
		window := time.Duration(windowMs) * time.Millisecond
		repo, err := middleware.NewMapExpiringKeyRepository(window)
		if err != nil {
			t.Fatalf("NewMapExpiringKeyRepository: %v", err)
		}
		d := &middleware.Deduplicator{KeyFactory: middleware.NewMessageHasherSHA256(math.MaxInt64), Repository: repo, Timeout: time.Second}
		calls := 0
		h := d.Middleware(func(m *message.Message) ([]*message.Message, error) { calls++; return nil, nil })
		// many other live keys: the clean-up cycle then takes a while; the key must stay remembered during it
		// (the repository of every case keeps ticking over its never-shrinking map for the rest of the process: sizes
		// and frequencies are kept small enough that the leaked clean-up work stays far below one core per process)
		ballast := rapid.SampledFrom([]int{0, 0, 0, 0, 0, 0, 0, 0, 1000, 1000, 1000, 1000, 20000, 20000, 20000, 50000}).Draw(t, "otherLiveKeys")
		for i := 0; i < ballast; i++ {
			repo.IsDuplicate(context.Background(), fmt.Sprintf("ballast-%d", i))
		}
		// other keys keep arriving all the time (a busy deduplicator): the key of this case expires all the same
		if rapid.IntRange(0, 2).Draw(t, "freshKeysKeepArriving") == 0 {
			stopTraffic := make(chan struct{})
			defer close(stopTraffic)
			caseNo := expiryCases.Load()
			go func() {
				for i := 0; ; i++ {
					select {
					case <-stopTraffic:
						return
					case <-time.After(window / 4):
					}
					repo.IsDuplicate(context.Background(), fmt.Sprintf("traffic-%d-%d", caseNo, i))
				}
			}()
		}
		// random phase relative to the clean-up ticker
		time.Sleep(time.Duration(rapid.IntRange(0, windowMs).Draw(t, "phaseMs")) * time.Millisecond)
		payload := []byte(fmt.Sprintf("retention-%d", expiryCases.Load()))
		other := []byte(fmt.Sprintf("other-%d", expiryCases.Load()))
		firstStart := time.Now()
		h(message.NewMessage("1", payload))
		if calls != 1 {
			t.Fatalf("violation: first presentation not handled")
		}
		offsets := []float64{rapid.Float64Range(0.05, 0.45).Draw(t, "off1"), rapid.Float64Range(0.5, 0.8).Draw(t, "off2"), rapid.Float64Range(0.8, 0.97).Draw(t, "off3")}
		checked := 0
		for oi, f := range offsets {
			target := firstStart.Add(time.Duration(f * float64(window)))
			if d := time.Until(target); d > 0 {
				time.Sleep(d)
			}
			before := calls
			h(message.NewMessage("dup", payload))
			end := time.Now()
			if end.Before(firstStart.Add(window)) {
				checked++
				if calls != before {
					t.Fatalf("violation: key accepted again %v after it was first seen, retention window is %v", end.Sub(firstStart), window)
				}
			} else if calls != before {
				// the key was (legitimately or not) accepted again after the window: the retention clock restarts
				break
			}
			// a different key is never suppressed
			c0 := calls
			h(message.NewMessage("other", append(append([]byte(nil), other...), byte('0'+oi))))
			if calls != c0+1 {
				t.Fatalf("violation: a message with a different key was suppressed")
			}
		}
		// accepted again after expiry
		var acceptStart time.Time // start of the presentation that was accepted again: the new window cannot begin earlier
		again := lib.WaitUntil(lib.Live, func() bool {
			before := calls
			acceptStart = time.Now()
			h(message.NewMessage("again", payload))
			return calls != before
		})
		if !again {
			// a miss of the liveness bound is confirmed over a much longer bound before it is reported: the first
			// bound can be missed on a machine that is saturated by other processes
			again = lib.WaitUntil(6*lib.Live, func() bool {
				before := calls
				acceptStart = time.Now()
				h(message.NewMessage("again", payload))
				return calls != before
			})
			lib.Count("retention-reaccept-slow", 1)
			if !again {
				t.Fatalf("violation: key not accepted again within %v although the window is %v", 7*lib.Live, window)
			}
		}
		// the re-acceptance starts a new window: the very next presentations of the key are duplicates again
		// (conservative, as above: only judged when they finished inside the window counted from the START of the accepted presentation)
		for k := 0; k < 2; k++ {
			before := calls
			h(message.NewMessage("dup-after-reacceptance", payload))
			if end := time.Now(); end.Before(acceptStart.Add(window)) && calls != before {
				t.Fatalf("violation: key accepted again %v after the start of the presentation that had just been accepted again (window %v): more than one per window", end.Sub(acceptStart), window)
			}
		}
		lib.Case(fmt.Sprintf("ret|%d|%v", windowMs, offsets), checked > 0, "retention", fmt.Sprintf("checked-in-window=%d", checked))
		lib.Sample(map[string]any{"test": "RetentionWindow", "window": window.String(), "offsets": offsets, "in_window_checks": checked})
	})
}

// ---------- re-acceptance after the repository has been idle ----------

// "A key ... is accepted again after it expired" (documented: at most 50% later than the window, it depends on the clean-up
// cycle) - also for the first key that arrives after the repository has been empty for a long time (many windows).
// Wall-clock: the bound used is 1.5 x window + 0.6 s, and a miss is confirmed by a second, independent measurement.
func reacceptAfterIdle(window, idle time.Duration, key string) (time.Duration, error) {
	repo, err := middleware.NewMapExpiringKeyRepository(window)
	if err != nil {
		return 0, err
	}
	time.Sleep(idle)
	if dup, _ := repo.IsDuplicate(context.Background(), key); dup {
		return 0, fmt.Errorf("a fresh key is reported as a duplicate")
	}
	t0 := time.Now()
	for time.Since(t0) < 7*lib.Live {
		time.Sleep(window / 4)
		if dup, _ := repo.IsDuplicate(context.Background(), key); !dup {
			return time.Since(t0), nil
		}
	}
	return time.Since(t0), nil
}

func TestReacceptanceAfterIdle(t *testing.T) {
	rapid.Check(t, func(t *rapid.T) {
		expiryCases.Add(1)
		window := time.Duration(rapid.IntRange(20, 60).Draw(t, "windowMs")) * time.Millisecond
		idle := time.Duration(rapid.IntRange(2000, 4000).Draw(t, "idleMs")) * time.Millisecond
		bound := window*3/2 + 600*time.Millisecond
		took, err := reacceptAfterIdle(window, idle, "idle-key")
		if err != nil {
			t.Fatalf("violation: %v", err)
		}
		if took > bound {
			lib.Count("reacceptance-after-idle-slow-first-measurement", 1)
			took2, _ := reacceptAfterIdle(window, idle, "idle-key-confirm")
			if took2 > bound {
				t.Fatalf("violation: after the repository had been idle for %v, a key was accepted again only %v (confirmed: %v) after it was first seen; window %v, documented at most 50%% more", idle, took, took2, window)
			}
		}
		lib.Case(fmt.Sprintf("idle|%v|%v", window, idle), true, "reacceptance-after-idle")
		lib.Sample(map[string]any{"test": "ReacceptanceAfterIdle", "window": window.String(), "idle": idle.String(), "reaccepted_after": took.String()})
	})
}
