// C05 — GoChannel: one unsettled message per subscription; blocking publish waits.
package c05

import (
	"context"
	"fmt"
	"os"
	"runtime"
	"strings"
	"testing"
	"time"

	"github.com/ThreeDotsLabs/watermill"
	"github.com/ThreeDotsLabs/watermill/message"
	"github.com/ThreeDotsLabs/watermill/pubsub/gochannel"

	"github.com/ThreeDotsLabs/watermill/verifharness/gcprog"
	"github.com/ThreeDotsLabs/watermill/verifharness/lib"
	"pgregory.net/rapid"
)

func TestMain(m *testing.M) {
	lib.Extra("rule", "the GoChannel program generator of C04 biased towards held/delayed settlements, nack sequences and blocking mode (incl. subscriptions that cancel while holding an unsettled message and subscribers that publish to another topic before acking). "+
		"Oracle over the history: while a message is unsettled nothing else becomes receivable on that subscription (observed by reading the channel during the hold window, for every buffer size and in persistent replay); "+
		"in blocking mode, at the instant Publish returned every subscription that existed before the call started (and did not cancel) has an Ack of every message of the call in the history, each such subscription saw one publisher's messages in publish order, and every Publish returns within the liveness bound. "+
		"Non-trivial: a held/delayed settlement with >=2 messages queued behind it, or a blocking Publish with >=1 Nack."+
		" Publish calls subscribers make while holding a message (follow-ups; every second one carries the held message's context) are recorded and, in blocking mode, judged by the same returned-only-after-the-acks rule.")
	lib.Extra("assumptions", []string{
		"'about to settle' is stamped before Ack/Nack is called, the Publish return after it: stamp order is consistent with real time (one atomic counter)",
		"known finding C05-F1 is excluded by construction and reproduced separately",
	})
	lib.Main(m)
}

func TestOneInFlightAndBlocking(t *testing.T) {
	rapid.Check(t, func(t *rapid.T) {
		o := gcprog.Opts{HoldBias: true, AllowForced: true}
		if rapid.Bool().Draw(t, "forceBlocking") {
			o.ForceBlocking = gcprog.Bool(true)
		}
		gcprog.CheckProperty(t, "C05", "TestOneInFlightAndBlocking", o)
	})
}

func TestReplayProgram(t *testing.T) { gcprog.ReplayFromEnv(t, 300) }

// ---- known finding C05-F1 ----
//
// Blocking mode: Publish(A) holds the subscribers read lock while it waits for the Ack. A subscriber
// that publishes to another topic before acking deadlocks as soon as any Subscribe / unsubscribe is
// waiting for the write lock (sync.RWMutex blocks new readers behind a waiting writer).
// The main search excludes this class by construction; this test reproduces it deterministically.

func reproduceF1() (deadlocked bool, dump string) {
	g := gochannel.NewGoChannel(gochannel.Config{BlockPublishUntilSubscriberAck: true}, watermill.NopLogger{})
	defer func() { go g.Close() }()
	chA, err := g.Subscribe(context.Background(), "A")
	if err != nil {
		return false, "subscribe failed"
	}
	pubA := make(chan error, 1)
	go func() { pubA <- g.Publish("A", message.NewMessage("a1", nil)) }()
	var m *message.Message
	select {
	case m = <-chA:
	case <-time.After(lib.Live):
		return false, "no delivery"
	}
	// a writer starts waiting for the subscribers lock (Publish(A) holds the read lock)
	subC := make(chan struct{})
	go func() { g.Subscribe(context.Background(), "C"); close(subC) }()
	time.Sleep(20 * time.Millisecond)
	// the subscriber publishes to another topic of the same Pub/Sub before acking
	pubB := make(chan error, 1)
	go func() { pubB <- g.Publish("B", message.NewMessage("b1", nil)) }()
	select {
	case <-pubB:
		m.Ack()
		<-pubA
		return false, ""
	case <-time.After(2 * time.Second):
	}
	buf := make([]byte, 1<<20)
	buf = buf[:runtime.Stack(buf, true)]
	select {
	case <-subC:
		return false, "Subscribe returned although Publish(B) is stuck"
	default:
	}
	// unblock: ack lets Publish(A) return, which releases the read lock
	m.Ack()
	return true, string(buf)
}

func TestKnownFindingF1(t *testing.T) {
	listed := false
	if b, err := os.ReadFile(os.Getenv("VERIF_ROOT") + "/KNOWN_FINDINGS.txt"); err == nil {
		for _, line := range strings.Split(string(b), "\n") {
			if strings.HasPrefix(line, "finding:") && strings.Contains(line, "property=C05") && strings.Contains(line, "id=C05-F1") {
				listed = true
			}
		}
	}
	reproduced := false
	dump := ""
	for i := 0; i < 5 && !reproduced; i++ {
		reproduced, dump = reproduceF1()
	}
	lib.Case("known-finding-C05-F1", reproduced, "known-finding-reproduction")
	if !reproduced {
		return // not (or no longer) present
	}
	inRLock := strings.Contains(dump, "RWMutex).RLock") && strings.Contains(dump, "gochannel.(*GoChannel).Publish")
	what := "property=C05 id=C05-F1 blocking Publish does not return: a subscriber that publishes to another topic before acking deadlocks with a Subscribe waiting for the subscribers write lock (Publish stuck in RLock: " + fmt.Sprint(inRLock) + ")"
	if listed {
		lib.KnownFinding(what)
		lib.Sample(map[string]any{"test": "KnownFindingF1", "reproduced": true, "publish_stuck_in_RLock": inRLock})
		return
	}
	path := lib.WriteReplay("TestKnownFindingF1", "C05-F1", map[string]any{"property": "C05", "what": what, "goroutines": dump})
	t.Fatalf("violation of C05: %s\nreplay: %s", what, path)
}

// ---------- a blocking Publish is released when the subscription it waits for goes away ----------

// "Publish returns only after every subscription active for the message has Acked it (or that subscription or the Pub/Sub
// was closed)": the subscription that has not acked may not even have RECEIVED the message (its consumer is busy elsewhere
// and does not read), and it goes away by a cancelled context or by Close. Nothing is drained before Publish has returned:
// reading the channel would free a sender that is stuck on it.
func TestBlockedPublishReleased(t *testing.T) {
	rapid.Check(t, func(t *rapid.T) {
		cfg := gochannel.Config{
			OutputChannelBuffer:            int64(rapid.IntRange(0, 2).Draw(t, "buffer")),
			Persistent:                     rapid.Bool().Draw(t, "persistent"),
			BlockPublishUntilSubscriberAck: true,
		}
		nOthers := rapid.IntRange(0, 2).Draw(t, "ackingSubscriptions")
		batch := rapid.IntRange(1, 3).Draw(t, "messagesInOnePublish")
		victimReads := rapid.IntRange(0, 2).Draw(t, "victimReceivesBeforeItStopsReading") // unsettled receipts: 0 = never reads
		byClose := rapid.Bool().Draw(t, "releasedByClose")
		g := gochannel.NewGoChannel(cfg, watermill.NopLogger{})
		vctx, vcancel := context.WithCancel(context.Background())
		defer vcancel()
		victim, err := g.Subscribe(vctx, "T")
		if err != nil {
			t.Fatalf("harness: %v", err)
		}
		for i := 0; i < nOthers; i++ {
			ch, err := g.Subscribe(context.Background(), "T")
			if err != nil {
				t.Fatalf("harness: %v", err)
			}
			go func() {
				for m := range ch {
					m.Ack()
				}
			}()
		}
		var msgs []*message.Message
		for i := 0; i < batch; i++ {
			msgs = append(msgs, message.NewMessage(fmt.Sprintf("m%d", i), nil))
		}
		pubRet := make(chan error, 1)
		go func() { pubRet <- g.Publish("T", msgs...) }()
		// the victim receives a message (and leaves it unsettled) at most once: it holds one unsettled message then
		held := 0
		if victimReads > 0 {
			select {
			case <-victim:
				held = 1
			case <-time.After(lib.Live):
				t.Fatalf("harness: the victim subscription received nothing")
			}
		}
		time.Sleep(time.Duration(rapid.IntRange(0, 2).Draw(t, "delayMs")) * time.Millisecond)
		select {
		case err := <-pubRet:
			t.Fatalf("violation: blocking Publish returned (%v) although a subscription has neither acked nor been closed (it holds %d unsettled messages)", err, held)
		default:
		}
		closeRet := make(chan struct{})
		if byClose {
			go func() { g.Close(); close(closeRet) }()
		} else {
			vcancel()
			close(closeRet)
		}
		select {
		case <-pubRet:
		case <-time.After(lib.Live):
			t.Fatalf("violation: blocking Publish did not return within %v after the only subscription that had not acked was %s (that subscription had received %d of the %d messages, nobody was reading its channel)",
				lib.Live, map[bool]string{true: "closed with the Pub/Sub", false: "cancelled"}[byClose], held, batch)
		}
		// now drain and shut down
		go func() {
			for range victim {
			}
		}()
		if !byClose {
			done := make(chan struct{})
			go func() { g.Close(); close(done) }()
			select {
			case <-done:
			case <-time.After(lib.Live):
				t.Fatalf("violation: Close did not return within %v", lib.Live)
			}
		} else {
			select {
			case <-closeRet:
			case <-time.After(lib.Live):
				t.Fatalf("violation: Close did not return within %v", lib.Live)
			}
		}
		lib.Case(fmt.Sprintf("released|%+v|%d|%d|%d|%v", cfg, nOthers, batch, victimReads, byClose), true, "blocked-publish-released", fmt.Sprintf("by-close=%v", byClose), fmt.Sprintf("victim-received=%d", held))
		lib.Sample(map[string]any{"test": "BlockedPublishReleased", "buffer": cfg.OutputChannelBuffer, "persistent": cfg.Persistent, "acking_subscriptions": nOthers, "batch": batch, "victim_received": held, "released_by_close": byClose})
	})
}
