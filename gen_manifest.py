#!/usr/bin/env python3
"""Regenerates MANIFEST.json from checks_config.py (run after editing the config)."""
import json, subprocess, os
from checks_config import CHECKS, NOT_APPLICABLE

ROOT = os.path.dirname(os.path.abspath(__file__))
props = [json.loads(l)["id"] for l in open(os.path.join(ROOT, "properties.jsonl"))]
commits = subprocess.run(["git", "-C", "/repo", "log", "--format=%H %s"], capture_output=True, text=True).stdout.splitlines()
hook_commits = [c.split()[0] for c in commits if c.split(" ", 1)[1].startswith("verif hooks")]
m = dict(
    version=1,
    setup_cmd="./setup.sh",
    hooks=dict(
        guard="verif",
        enable="go test -tags verif (harness module /verif/harness with replace => /repo); without the tag internal/verifhook.At is an empty function and components/forwarder/export_verif.go is not compiled",
        baseline_off_cmd="cd /repo && GOFLAGS=-mod=mod go test -vet=off -count=1 -timeout 25m ./...",
        source_commits=list(reversed(hook_commits)),
        add_only=True,
    ),
    engines=[dict(name="harness", path="harness/", serves_properties=sorted(CHECKS),
                  kind_free_text="Go test packages (one per property) using pgregory.net/rapid v1.3.0 generators/state machines, bounded-exhaustive enumeration, forced schedules through build-tag guarded hook points, the race detector and (thorough) native go fuzzing; driver ./check (python3)")],
    checks=[],
    notes="See DESIGN.md. KNOWN_FINDINGS.txt lists recorded findings and fixed defects.",
    not_applicable=[],
)
for pid in props:
    if pid in CHECKS:
        c = CHECKS[pid]
        m["checks"].append(dict(
            property_id=pid,
            quick_cmd="./check %s --tier quick" % pid,
            thorough_cmd="./check %s --tier thorough" % pid,
            evidence_file="evidence/%s.json" % pid,
            replay_cmd_template="./check %s --replay {path}" % pid,
            engine="harness",
            level_claimed=dict(category=c["level"], text=c["level_text"], design_ref=c.get("design_ref", "DESIGN.md section 3 (%s)" % pid)),
            level_note=c["level_note"],
            technique=c["technique"],
        ))
    else:
        m["not_applicable"].append(dict(property_id=pid, reason=NOT_APPLICABLE.get(pid, "check not built yet in this round (planned, see DESIGN.md section 3); not claimed until it exists")))
json.dump(m, open(os.path.join(ROOT, "MANIFEST.json"), "w"), indent=1)
print("claimed:", len(m["checks"]), "not_applicable:", len(m["not_applicable"]))
